// cfgrel_env.h -- environment of the argument-buffer fragments of Instance::configure_tx_txin: strdup = allocation of kind
// "malloc" (ghost table), delete / free = release with a recorded deallocation function, HexStr / parse_stack_args as no-ops.
#pragma once
#define VERIF_ALLOC_N 6
struct verif_hexs { int d; verif_hexs() : d(0) {} const char* c_str() const { return ""; } };
inline verif_hexs HexStr(const verif_bytes& v) { return verif_hexs(); }
extern char g_alloc_obj[VERIF_ALLOC_N][2]; extern int g_alloc_n; extern int g_alloc_state[VERIF_ALLOC_N];   // 0 = not allocated, 1 = live (malloc family), 2 = released
extern int g_wrong_dealloc, g_double_release, g_foreign_release;
inline char* verif_strdup(const char* s) { int k = g_alloc_n; VERIF_LIMIT(k < VERIF_ALLOC_N, "allocation table capacity"); g_alloc_state[k] = 1; g_alloc_n = k + 1; return g_alloc_obj[k]; }
inline void verif_release(const char* p, bool with_free) {
    bool found = false;
    for (int k = 0; k < VERIF_ALLOC_N; ++k) if (p == g_alloc_obj[k]) { found = true; if (g_alloc_state[k] != 1) g_double_release = g_double_release + 1; g_alloc_state[k] = 2; }
    if (!found) g_foreign_release = g_foreign_release + 1;
    if (!with_free) g_wrong_dealloc = g_wrong_dealloc + 1;      // the buffers come from strdup (malloc): only free() matches
}
inline void verif_delete(const char* p) { verif_release(p, false); }
inline void verif_free(const void* p) { verif_release((const char*)p, true); }
struct verif_cptrvec { const char* p[VERIF_ALLOC_N]; size_t n; verif_cptrvec() : n(0) {}
    void push_back(const char* s) { VERIF_LIMIT(n < VERIF_ALLOC_N, "argument list capacity"); p[n] = s; n = n + 1; }
    bool empty() const { return n == 0; } const char* back() const { __CPROVER_assert(n > 0, "std::vector precondition: back() on non-empty"); return p[n - 1]; }
    void pop_back() { __CPROVER_assert(n > 0, "std::vector precondition: pop_back() on non-empty"); n = n - 1; } size_t size() const { return n; } };
extern int g_psa_calls; extern size_t g_psa_n;
inline void parse_stack_args(const verif_cptrvec& v) { g_psa_calls = g_psa_calls + 1; g_psa_n = v.n; }
char g_alloc_obj[VERIF_ALLOC_N][2]; int g_alloc_n; int g_alloc_state[VERIF_ALLOC_N]; int g_wrong_dealloc, g_double_release, g_foreign_release; int g_psa_calls; size_t g_psa_n;
int verif_expect_throw; int verif_thrown;
