// l2_env_pre.h -- stubs for the debugger-session unit (L2): history vectors, TaprootCommitmentEnv as a contract stub
#pragma once
typedef verif_stack stack_type;
#define VH_NAME verif_stackhist
#define VH_T verif_stack
#include "verif_hist_body.h"
#undef VH_NAME
#undef VH_T
typedef const unsigned char* verif_pc_t;
#define VH_NAME verif_pchist
#define VH_T verif_pc_t
#include "verif_hist_body.h"
#undef VH_NAME
#undef VH_T
#define VH_NAME verif_inthist
#define VH_T int
#include "verif_hist_body.h"
#undef VH_NAME
#undef VH_T
#define VH_NAME verif_u32hist
#define VH_T uint32_t
#include "verif_hist_body.h"
#undef VH_NAME
#undef VH_T
#define VH_NAME verif_cshist
#define VH_T ConditionStack
#include "verif_hist_body.h"
#undef VH_NAME
#undef VH_T
#define VH_NAME verif_edhist
#define VH_T ScriptExecutionData
#include "verif_hist_body.h"
#undef VH_NAME
#undef VH_T
#define VH_NAME verif_scripthist
#define VH_T CScript
#include "verif_hist_body.h"
#undef VH_NAME
#undef VH_T
// TaprootCommitmentEnv: contract stub (its real body is verified in C05). Iterate() returns an arbitrary state.
extern int g_tce_iter_calls; extern int g_tce_next_state; extern int g_tce_deleted;
struct TaprootCommitmentEnv {
    enum class State : uint8_t { Processing, Failed, Tweaked, Done, };
    uint256* m_tapleaf_hash; uint256 m_k; int m_i; int m_path_len;   // fields of the real struct that session code may mention
    State Iterate() { g_tce_iter_calls = g_tce_iter_calls + 1; return (State)g_tce_next_state; }
};
inline void verif_delete_tce(TaprootCommitmentEnv* p) { g_tce_deleted = g_tce_deleted + 1; }
inline const char* verif_what() { return ""; }
