// ser_env.h -- byte-buffer stream and the ser_read/writedataN primitives (serialize.h implements them through Span/AsBytes and
// htole/letoh: little-endian byte order, assumed).  Reading past the end raises ios_base::failure like CDataStream.
#pragma once
struct verif_stream { unsigned char b[16]; size_t n; size_t rd; };
template<typename S> inline void ser_writedata8(S& s, uint8_t v) { VERIF_LIMIT(s.n < 16, "stream capacity"); s.b[s.n] = v; s.n = s.n + 1; }
template<typename S> inline void ser_writedata16(S& s, uint16_t v) { ser_writedata8(s, (uint8_t)(v & 0xff)); ser_writedata8(s, (uint8_t)(v >> 8)); }
template<typename S> inline void ser_writedata32(S& s, uint32_t v) { for (int i = 0; i < 4; ++i) ser_writedata8(s, (uint8_t)((v >> (8 * i)) & 0xff)); }
template<typename S> inline void ser_writedata64(S& s, uint64_t v) { for (int i = 0; i < 8; ++i) ser_writedata8(s, (uint8_t)((v >> (8 * i)) & 0xff)); }
template<typename S> inline uint8_t ser_readdata8(S& s) { if (s.rd >= s.n) VERIF_THROW(VT_IOS_FAILURE); uint8_t v = s.b[s.rd]; s.rd = s.rd + 1; return v; }
template<typename S> inline uint16_t ser_readdata16(S& s) { uint16_t a = ser_readdata8(s); uint16_t b = ser_readdata8(s); return (uint16_t)(a | (b << 8)); }
template<typename S> inline uint32_t ser_readdata32(S& s) { uint32_t r = 0; for (int i = 0; i < 4; ++i) r |= (uint32_t)ser_readdata8(s) << (8 * i); return r; }
template<typename S> inline uint64_t ser_readdata64(S& s) { uint64_t r = 0; for (int i = 0; i < 8; ++i) r |= (uint64_t)ser_readdata8(s) << (8 * i); return r; }
#define VERIF_LIMIT_uint16_t_max 65535
#define VERIF_LIMIT_unsigned_int_max 4294967295U
int verif_expect_throw; int verif_thrown;
