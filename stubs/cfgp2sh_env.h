// cfgp2sh_env.h -- environment of the P2SH-embedded branch of Instance::configure_tx_txin: scripts by identity with GetOp as an
// oracle (per call: success, opcode, push payload), HASH160 as an oracle (20 bytes), uint160 WITH the size assertion of the real
// base_blob constructor, logging / HexStr / ToString as no-ops.
#pragma once
enum opcodetype { OP_0 = 0x00, OP_HASH160 = 0xa9, OP_EQUAL = 0x87 };
typedef void (*verif_logf_t)(const char* fmt...);
inline void verif_logf_dummy(const char* fmt...) {}
verif_logf_t btc_segwit_logf = verif_logf_dummy;
struct verif_FILE; verif_FILE* stderr; int fprintf(verif_FILE* f, const char* fmt...) { return 0; }
namespace std { struct verif_sstr { int d; verif_sstr() : d(0) {} verif_sstr(const char* s) : d(1) {} verif_sstr& operator=(const char* s) { d = 2; return *this; } const char* c_str() const { return ""; } }; }
#define string verif_sstr
extern int g_getop_calls; extern bool g_getop_ok[4]; extern int g_getop_opc[4]; extern verif_bytes g_getop_push[4]; extern const void* g_getop_script[4];
class CScript { public:
    typedef size_t const_iterator;
    size_t nbytes; verif_bytes from;                  // byte length; payload it was built from (when constructed from a push value)
    CScript() : nbytes(0) {}
    CScript(const unsigned char* b, const unsigned char* e) : nbytes((size_t)(e - b)) {}
    size_t size() const { return nbytes; }
    const_iterator begin() const { return 0; }
    bool GetOp(const_iterator& it, opcodetype& opc, verif_bytes& v) const {
        int k = g_getop_calls; VERIF_LIMIT(k < 4, "GetOp oracle call capacity"); g_getop_calls = k + 1; g_getop_script[k] = this;
        if (!g_getop_ok[k]) return false;
        opc = (opcodetype)g_getop_opc[k]; v = g_getop_push[k]; it = it + 1; return true;
    }
};
struct verif_hex { int d; verif_hex() : d(0) {} const char* c_str() const { return ""; } };
inline verif_hex HexStr(const CScript& s) { return verif_hex(); }
inline verif_hex GetOpName(opcodetype o) { return verif_hex(); }
// uint160: the constructor from a byte vector asserts the length, as base_blob<160>(const std::vector<unsigned char>&) does
class uint160 { public: unsigned char m[20];
    explicit uint160(const verif_bytes& v) { __CPROVER_assert(v.size() == 20, "assert() in btcdeb code: vch.size() == sizeof(m_data) [uint160(const std::vector<unsigned char>&)]"); for (size_t i = 0; i < 20; ++i) m[i] = i < v.n ? v.s.a[i] : 0; }
    bool operator!=(const uint160& o) const { for (int i = 0; i < 20; ++i) if (m[i] != o.m[i]) return true; return false; }
    verif_hex ToString() const { return verif_hex(); } };
extern verif_bytes g_h160_out; extern int g_h160_calls;
struct Value { verif_bytes data;
    Value() {} explicit Value(const verif_bytes& d) : data(d) {} explicit Value(const CScript& s) {}
    void do_hash160() { g_h160_calls = g_h160_calls + 1; data = g_h160_out; }
    verif_bytes data_value() { return data; }
    verif_hex hex_str() const { return verif_hex(); } };
int g_getop_calls; bool g_getop_ok[4]; int g_getop_opc[4]; verif_bytes g_getop_push[4]; const void* g_getop_script[4]; verif_bytes g_h160_out; int g_h160_calls;
int verif_expect_throw; int verif_thrown;
