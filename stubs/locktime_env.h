// locktime_env.h -- concrete stand-in for GenericTransactionSignatureChecker<T> (class template): the fields its lock-time
// members read (transaction lock time, version, the spending input's sequence number)
#pragma once
struct verif_tx { uint32_t nLockTime; int32_t nVersion; CTxIn vin[2]; };
class verif_lockchecker { public: const verif_tx* txTo; unsigned int nIn;
    bool CheckLockTime(const CScriptNum& nLockTime) const; bool CheckSequence(const CScriptNum& nSequence) const; };
