// include-template: history vector VH_NAME of VH_T (model of std::vector<T> used only through push_back / pop_back /
// back / size / empty): ghost-prefix window, the last two entries have storage, `cnt` is the logical size.
class VH_NAME {
public:
    size_t cnt; size_t known; VH_T older; VH_T newest;
    VH_NAME() : cnt(0), known(0) {}
    size_t size() const { return cnt; }
    bool empty() const { return cnt == 0; }
    void push_back(const VH_T& v) { VH_T t = v; older = newest; newest = t; cnt = cnt + 1; if (known < 2) known = known + 1; }
    void pop_back() {
        __CPROVER_assert(cnt > 0, "std::vector precondition: pop_back() on non-empty vector");
        VERIF_LIMIT(known > 0, "history access below the modelled window");
        newest = older; known = known - 1; cnt = cnt - 1;
    }
    VH_T& back() {
        __CPROVER_assert(cnt > 0, "std::vector precondition: back() on non-empty vector");
        VERIF_LIMIT(known > 0, "history access below the modelled window");
        return newest;
    }
    const VH_T& back() const { return const_cast<VH_NAME*>(this)->back(); }
};
