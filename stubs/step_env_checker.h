// step_env_checker.h -- BaseSignatureChecker as a NON-virtual oracle (virtual dispatch crashes CBMC 6.11):
// every method returns a ghost answer chosen by the harness and records its arguments.
#pragma once
extern bool g_locktime_ok, g_sequence_ok; extern int g_locktime_calls, g_sequence_calls; extern int64_t g_locktime_arg, g_sequence_arg;
extern int g_ecdsa_calls; extern bool g_ecdsa_ok[VERIF_ORACLE_N]; extern verif_bytes g_ecdsa_sig[VERIF_ORACLE_N]; extern verif_bytes g_ecdsa_key[VERIF_ORACLE_N]; extern int g_ecdsa_sigversion[VERIF_ORACLE_N];
extern int g_schnorr_calls; extern bool g_schnorr_ok; extern int g_schnorr_err; extern verif_bytes g_schnorr_sig, g_schnorr_key; extern int g_schnorr_sigversion;
class BaseSignatureChecker {
public:
    int verif_dummy;
    BaseSignatureChecker() : verif_dummy(0) {}
    bool CheckLockTime(const CScriptNum& nLockTime) const { g_locktime_calls = g_locktime_calls + 1; g_locktime_arg = nLockTime.GetInt64(); return g_locktime_ok; }
    bool CheckSequence(const CScriptNum& nSequence) const { g_sequence_calls = g_sequence_calls + 1; g_sequence_arg = nSequence.GetInt64(); return g_sequence_ok; }
    bool CheckECDSASignature(const verif_bytes& scriptSig, const verif_bytes& vchPubKey, const CScript& scriptCode, SigVersion sigversion) const {
        int k = g_ecdsa_calls; VERIF_LIMIT(k < VERIF_ORACLE_N, "ECDSA oracle call log capacity");
        g_ecdsa_sig[k] = scriptSig; g_ecdsa_key[k] = vchPubKey; g_ecdsa_sigversion[k] = (int)sigversion; g_ecdsa_calls = k + 1; return g_ecdsa_ok[k];
    }
    bool CheckSchnorrSignature(const verif_bytes& sig, const verif_bytes& pubkey, SigVersion sigversion, ScriptExecutionData& execdata, ScriptError* serror = 0) const {
        g_schnorr_calls = g_schnorr_calls + 1; g_schnorr_sig = sig; g_schnorr_key = pubkey; g_schnorr_sigversion = (int)sigversion;
        if (!g_schnorr_ok && serror) *serror = (ScriptError)g_schnorr_err;
        return g_schnorr_ok;
    }
};
