// addrspk_env.h -- environment of Value::do_addr_to_spk: the base58check decoder is an oracle (any byte string, possibly empty -
// the real decoder leaves the value empty and only prints "decode failed" for a malformed address); insert() copies a script.
#pragma once
extern verif_bytes g_b58_result; extern int g_b58_calls;
inline void verif_base58chkdec_oracle(verif_bytes& data) { g_b58_calls = g_b58_calls + 1; data = g_b58_result; }
class CScript;
inline void insert(verif_bytes& a, CScript& b);
struct verif_FILE; verif_FILE* stderr; int fprintf(verif_FILE* f, const char* fmt...) { return 0; }
verif_bytes g_b58_result; int g_b58_calls;
