// hvo_loop_env.h -- environment of the loop-contract unit of CScript::HasValidOps: a script of arbitrary length seen through
// begin()/end() only, and GetOp replaced by the CONTRACT of GetScriptOp (proved by leaf_getscriptop / leaf_getscriptop_len):
// either failure, or an opcode byte, a push size and a position advanced by at least one byte and at most to the end.
#pragma once
extern bool g_dec_ok; extern unsigned int g_dec_op; extern size_t g_dec_adv, g_dec_size; extern int g_dec_calls; extern const unsigned char* g_dec_at;
class CScript {
public:
    typedef const unsigned char* const_iterator;
    const unsigned char* b; size_t n;
    const_iterator begin() const { return b; }
    const_iterator end() const { return b + n; }
    bool GetOp(const_iterator& pc, opcodetype& opcodeRet, verif_bytes& vchRet) const {
        __CPROVER_assert(__CPROVER_same_object(pc, b) && pc >= b && pc <= b + n, "contract: GetScriptOp is called with a position inside the script");
        g_dec_calls = g_dec_calls + 1; g_dec_at = pc;
        if (!g_dec_ok) { opcodeRet = OP_INVALIDOPCODE; return false; }
        opcodeRet = (opcodetype)g_dec_op; vchRet.n = g_dec_size; pc = pc + g_dec_adv;
        return true;
    }
    const_iterator verif_loop_init() const;
    bool verif_loop_cond(const_iterator it) const;
    int verif_loop_body(const_iterator& it, bool& verif_ret) const;
};
bool g_dec_ok; unsigned int g_dec_op; size_t g_dec_adv, g_dec_size; int g_dec_calls; const unsigned char* g_dec_at;
