// listing_env.h -- environment of one listing line of main(): snprintf as a bounded writer (writes the terminating NUL where libc
// would: at min(length of the formatted text, size - 1) - which is what a too large `size` turns into an out-of-bounds write),
// HexStr / GetOpName by the LENGTH of the text they return, strdup as a logged call.
#pragma once
typedef int opcodetype;
extern size_t g_next_text_len;     // length of the text the next "%s" conversion formats (set by c_str() of the stub strings)
extern int g_index_digits;         // length of "#%04d " for the current line number
struct verif_text { size_t len; verif_text() : len(0) {} explicit verif_text(size_t l) : len(l) {} const char* c_str() const { g_next_text_len = len; return ""; } };
inline verif_text HexStr(const verif_bytes& v) { return verif_text(2 * v.size()); }
extern size_t g_opname_len;
inline verif_text GetOpName(opcodetype op) { return verif_text(g_opname_len); }
extern int g_snprintf_calls;
inline int snprintf(char* dst, size_t size, const char* fmt...) {
    // the two formats of the fragment: "#%04d " (first call for a line) and "%s"
    size_t len = (fmt[0] == '#') ? (size_t)g_index_digits : g_next_text_len;
    g_snprintf_calls = g_snprintf_calls + 1;
    if (size > 0) { size_t z = size - 1; if (len < size) z = len; dst[z] = 0; if (z > 0) dst[z - 1] = 'x'; }
    return (int)len;
}
extern int g_strdup_calls; extern char g_dup_obj[2];
inline char* strdup(const char* s) { g_strdup_calls = g_strdup_calls + 1; return g_dup_obj; }
size_t g_next_text_len; int g_index_digits; size_t g_opname_len; int g_snprintf_calls; int g_strdup_calls; char g_dup_obj[2];
int verif_expect_throw; int verif_thrown;
