// ptx_env.h -- stub environment for Instance::parse_transaction (C13): libc strndup/free on a ghost buffer, std::string as a
// bounded value type, the amount parser and the transaction parser as ghost-logged oracles.
#pragma once
#ifndef VERIF_STR_CAP
#define VERIF_STR_CAP 40
#endif
namespace std { class verif_str { public: char c[VERIF_STR_CAP]; size_t n;
    verif_str() : n(0) { c[0] = 0; }
    verif_str(const char* s) : n(0) { for (size_t i = 0; i < VERIF_STR_CAP - 1; ++i) { if (s[i] == 0) break; c[i] = s[i]; n = i + 1; } VERIF_LIMIT(s[n] == 0, "string longer than the modelled capacity"); c[n] = 0; }
    verif_str(const char* s, size_t len) : n(0) { VERIF_LIMIT(len < VERIF_STR_CAP, "string longer than the modelled capacity"); for (size_t i = 0; i < VERIF_STR_CAP - 1; ++i) { if (i >= len) break; c[i] = s[i]; n = i + 1; } c[n] = 0; }
    verif_str(const verif_str& o) : n(o.n) { for (size_t i = 0; i < VERIF_STR_CAP; ++i) c[i] = o.c[i]; }
    verif_str& operator=(const verif_str& o) { n = o.n; for (size_t i = 0; i < VERIF_STR_CAP; ++i) c[i] = o.c[i]; return *this; }
    const char* c_str() const { return c; } size_t size() const { return n; } }; }
#define string verif_str
typedef int64_t CAmount;
static const CAmount COIN = 100000000;
// other libc number parsers a change might switch to: declared as oracles (arbitrary result, end pointer somewhere in the string), so
// that such a unit still compiles and the contract - every amount goes through the exact fixed-point parser - decides it
inline double strtod(const char* s, char** e) { size_t k = nondet_size(); __CPROVER_assume(k < VERIF_STR_CAP); if (e) *e = (char*)s + k; double d; return d; }
inline double atof(const char* s) { double d; return d; }
// snprintf(dst, n, "%.*s", prec, src) - the bounded-copy idiom - as a real bounded copy (a non-variadic overload wins over any variadic one)
inline int snprintf(char* dst, size_t n, const char* fmt, int prec, const char* src) {
    size_t k = 0;
    for (size_t i = 0; i < VERIF_STR_CAP; ++i) { if ((int)i >= prec || src[i] == 0 || i + 1 >= n) break; dst[i] = src[i]; k = i + 1; }
    if (n > 0) dst[k] = 0;
    return prec;
}
extern char g_dup[VERIF_STR_CAP]; extern int g_dup_live;
inline char* strndup(const char* s, size_t n) { VERIF_LIMIT(n < VERIF_STR_CAP, "strndup capacity"); for (size_t i = 0; i < VERIF_STR_CAP - 1; ++i) { if (i >= n || s[i] == 0) { g_dup[i] = 0; break; } g_dup[i] = s[i]; } g_dup[VERIF_STR_CAP - 1] = 0; g_dup_live = g_dup_live + 1; return g_dup; }
inline void free(void* p) { __CPROVER_assert(p == (void*)g_dup && g_dup_live == 1, "free() of exactly the buffer strndup returned, once"); g_dup_live = g_dup_live - 1; }
extern int g_pfp_calls; extern std::verif_str g_pfp_arg[3]; extern bool g_pfp_ok[3]; extern int64_t g_pfp_val[3];
inline bool ParseFixedPoint(const std::verif_str& val, int decimals, int64_t* out) { int k = g_pfp_calls; VERIF_LIMIT(k < 3, "amount parser call log capacity"); __CPROVER_assert(decimals == 8, "amounts have 8 decimals"); g_pfp_arg[k] = val; g_pfp_calls = k + 1; if (g_pfp_ok[k]) *out = g_pfp_val[k]; return g_pfp_ok[k]; }
struct verif_amounts { int64_t a[6]; size_t n; verif_amounts() : n(0) {} size_t size() const { return n; } void push_back(const int64_t& v) { VERIF_LIMIT(n < 6, "amount list capacity"); a[n] = v; n = n + 1; } };
struct verif_vin_n { size_t n; size_t size() const { return n; } };
struct CTransaction { verif_vin_n vin; bool witness; bool HasWitness() const { return witness; } };
typedef CTransaction* CTransactionRef;
extern CTransaction* g_parse_tx_result; extern const char* g_parse_tx_arg; extern int g_parse_tx_calls;
inline CTransactionRef parse_tx(const char* p) { g_parse_tx_arg = p; g_parse_tx_calls = g_parse_tx_calls + 1; return g_parse_tx_result; }
enum class SigVersion { BASE = 0, WITNESS_V0 = 1, TAPROOT = 2, TAPSCRIPT = 3 };
struct verif_FILE; verif_FILE* stderr; int fprintf(verif_FILE* f, const char* fmt...) { return 0; }
class Instance { public: CTransactionRef tx; verif_amounts amounts; SigVersion sigver; bool parse_transaction(const char* txdata, bool parse_amounts = false); };
char g_dup[VERIF_STR_CAP]; int g_dup_live; int g_pfp_calls; std::verif_str g_pfp_arg[3]; bool g_pfp_ok[3]; int64_t g_pfp_val[3];
CTransaction* g_parse_tx_result; const char* g_parse_tx_arg; int g_parse_tx_calls; int verif_expect_throw; int verif_thrown;
