// vsig_env.h -- environment of the argument checks of Value::verify_sig: extract_values is an oracle (success flag and the pushed
// values, any number and any lengths), uint256 has the size assertion of the real base_blob constructor.
#pragma once
struct verif_FILE; verif_FILE* stderr; int fprintf(verif_FILE* f, const char* fmt...) { return 0; } int fputc(int c, verif_FILE* f) { return c; }
class uint256 { public: unsigned char m[32];
    explicit uint256(const verif_bytes& v) { __CPROVER_assert(v.size() == 32, "assert() in btcdeb code: vch.size() == sizeof(m_data) [uint256(const std::vector<unsigned char>&)]"); for (size_t i = 0; i < 32; ++i) m[i] = i < v.n ? v.s.a[i] : 0; } };
extern bool g_extract_ok; extern verif_stack g_extract_vals; extern int g_vsig_head_done;
struct Value { enum { T_STRING, T_INT, T_DATA, T_OPCODE }; int type;
    bool extract_values(verif_stack& values) { values = g_extract_vals; return g_extract_ok; }
    void verify_sig_head(bool compact); };
bool g_extract_ok; verif_stack g_extract_vals; int g_vsig_head_done; int verif_expect_throw; int verif_thrown;
