// svf_loop_env.h -- environment of the loop-contract unit of svf_parse_flags (C09).
//  * `mod` (const char*) is modelled as a two-character view: one loop iteration reads mod[i] and the condition reads
//    mod[i-1]; any other access is reported as a model limit (exit 2), never as a violation.
//  * svf_get_flag is replaced by its CONTRACT: an arbitrary result for the string it is given (ghost-logged copy); the
//    table / unknown-name queries prove what the real function returns for which string.
//  * fprintf is a no-op, exit() an expectation check (same scheme as exceptions).
#pragma once
struct verif_cstr_view {
    size_t at; char prev, cur;
    char operator[](size_t k) const {
        VERIF_LIMIT(k == at || (at > 0 && k == at - 1), "one iteration of the flag-list loop reads only the current and the previous character");
        if (k == at) return cur;
        return prev;
    }
};
extern int verif_expect_exit;
#define VERIF_EXIT(code) do { __CPROVER_assert(verif_expect_exit == 1, "exit(1) reached only where the rules prescribe that the list is rejected"); __CPROVER_assume(0); } while (0)
struct verif_FILE; verif_FILE* stderr;
int fprintf(verif_FILE* f, const char* fmt...) { return 0; }
int g_getflag_calls; unsigned int g_getflag_ret; char g_getflag_arg[128]; size_t g_getflag_len;
static unsigned int svf_get_flag(const char* s) {
    g_getflag_calls = g_getflag_calls + 1;
    size_t n = 0; bool ended = false;
    for (size_t k = 0; k < 128; ++k) { if (!ended) { if (s[k] == 0) { ended = true; n = k; } else g_getflag_arg[k] = s[k]; } }
    VERIF_LIMIT(ended, "flag name handed to svf_get_flag is NUL-terminated inside the parser's buffer");
    g_getflag_len = n;
    return g_getflag_ret;
}
