// stdin_long_env.h -- stubs for the stdin script reader with lines of ANY length up to VERIF_LINE_MAX, modelled BY LENGTH: the
// input is one line of n ordinary characters plus a terminator (none / LF / CRLF).  fgets and getline deliver it the way libc
// does (fgets: at most cap-1 characters per call; getline: the whole line into a buffer it provides); only the characters the
// fragment can look at are materialised (first, last three, the NUL); strlen / strdup go by the ghost length.
#pragma once
#ifndef VERIF_LINE_MAX
#define VERIF_LINE_MAX 5000
#endif
typedef long ssize_t;
struct verif_FILE { int d; }; verif_FILE verif_stdin_obj, verif_stderr_obj; verif_FILE* stdin = &verif_stdin_obj; verif_FILE* stderr = &verif_stderr_obj;
inline int fprintf(verif_FILE* f, const char* fmt...) { return 0; }
extern size_t g_in_n; extern unsigned int g_in_term; extern size_t g_in_pos; extern bool g_in_eof; extern char g_in_first, g_in_last;
inline size_t verif_in_total() { return g_in_n + (g_in_term == 2 ? 2 : (g_in_term == 1 ? 1 : 0)); }
inline char verif_in_at(size_t p) { if (p == 0 && g_in_n > 0) return g_in_first; if (p + 1 == g_in_n) return g_in_last; if (p < g_in_n) return 'x'; if (g_in_term == 2 && p == g_in_n) return '\r'; return '\n'; }
extern const char* g_buf; extern size_t g_buf_len;
inline void verif_deliver(char* dst, size_t k) {
    if (k >= 1) dst[0] = verif_in_at(g_in_pos);
    if (k >= 3) dst[k - 3] = verif_in_at(g_in_pos + k - 3);
    if (k >= 2) dst[k - 2] = verif_in_at(g_in_pos + k - 2);
    if (k >= 1) dst[k - 1] = verif_in_at(g_in_pos + k - 1);
    dst[k] = 0; g_buf = dst; g_buf_len = k; g_in_pos = g_in_pos + k;
}
inline char* verif_fgets(char* dst, int cap, verif_FILE* f) {
    if (g_in_eof || g_in_pos >= verif_in_total() || cap < 2) return 0;
    size_t k = verif_in_total() - g_in_pos; if (k > (size_t)(cap - 1)) k = (size_t)(cap - 1);
    verif_deliver(dst, k); return dst;
}
extern char g_getline_buf[VERIF_LINE_MAX + 8]; extern int g_getline_calls;
inline ssize_t verif_getline(char** lineptr, size_t* n, verif_FILE* f) {
    g_getline_calls = g_getline_calls + 1; *lineptr = g_getline_buf; *n = VERIF_LINE_MAX + 8;
    if (g_in_eof || g_in_pos >= verif_in_total()) { g_getline_buf[0] = 0; g_buf = g_getline_buf; g_buf_len = 0; return -1; }
    size_t k = verif_in_total() - g_in_pos; verif_deliver(g_getline_buf, k); return (ssize_t)k;
}
inline size_t verif_strlen(const char* s) {
    VERIF_LIMIT(s == g_buf, "strlen of the buffer the line was read into");
    size_t L = g_buf_len;
    for (int i = 0; i < 3; ++i) { if (L > 0 && s[L - 1] == 0) L = L - 1; }       // terminator characters the fragment has overwritten with NUL
    return L;
}
extern size_t g_dup_len; extern char g_dup_first, g_dup_last; extern int g_dup_calls; extern char g_dup_obj[4];
inline char* verif_strdup(const char* s) { size_t L = verif_strlen(s); g_dup_calls = g_dup_calls + 1; g_dup_len = L; g_dup_first = L > 0 ? s[0] : 0; g_dup_last = L > 0 ? s[L - 1] : 0; return g_dup_obj; }
inline void verif_free(void* p) {}
size_t g_in_n; unsigned int g_in_term; size_t g_in_pos; bool g_in_eof; char g_in_first, g_in_last; const char* g_buf; size_t g_buf_len;
char g_getline_buf[VERIF_LINE_MAX + 8]; int g_getline_calls; size_t g_dup_len; char g_dup_first, g_dup_last; int g_dup_calls; char g_dup_obj[4];
bool pipe_in = true; int verif_expect_throw; int verif_thrown;
