// batch_env.h -- environment of the non-interactive driver fragment of main(): the session object by the fields the fragment
// touches; ContinueScript and Instance::step as their proved CONTRACTS (l2_continue: no exception escapes, success only for a
// finished session; l2_instance_step: no exception escapes - a successful step(n) does NOT imply a finished session);
// printing functions and fprintf as ghost-logged calls.
#pragma once
typedef int ScriptError;
struct verif_mainstack { int dummy; };
struct InterpreterEnv { ScriptError* serror; verif_mainstack stack; bool done; };
struct verif_errstr { int d; verif_errstr() : d(0) {} const char* c_str() const { return ""; } };
inline verif_errstr ScriptErrorString(ScriptError e) { return verif_errstr(); }
extern int g_cont_calls, g_step_calls, g_print_stack_calls, g_print_dual_calls, g_stderr_reports; extern bool g_run_result, g_done_after;
inline bool ContinueScript(InterpreterEnv& e) { g_cont_calls = g_cont_calls + 1; e.done = g_run_result ? true : g_done_after; return g_run_result; }
struct Instance { InterpreterEnv* env;
    bool step(size_t steps = 1) { g_step_calls = g_step_calls + 1; env->done = g_done_after; return g_run_result; }
    verif_errstr error_string() { return verif_errstr(); } };
struct verif_FILE { int d; }; verif_FILE verif_stderr_obj, verif_stdout_obj; verif_FILE* stderr = &verif_stderr_obj; verif_FILE* stdout = &verif_stdout_obj;
inline int fprintf(verif_FILE* f, const char* fmt...) { if (f == stderr) g_stderr_reports = g_stderr_reports + 1; return 0; }
inline int printf(const char* fmt...) { return 0; }
inline void print_dualstack() { g_print_dual_calls = g_print_dual_calls + 1; }
extern verif_mainstack* g_printed_stack; extern bool g_printed_raw;
inline void print_stack(verif_mainstack& s, bool raw = false) { g_print_stack_calls = g_print_stack_calls + 1; g_printed_stack = &s; g_printed_raw = raw; }
bool pipe_in, pipe_out, verbose, quiet; InterpreterEnv* env; Instance instance; int count;
int g_cont_calls, g_step_calls, g_print_stack_calls, g_print_dual_calls, g_stderr_reports; bool g_run_result, g_done_after; verif_mainstack* g_printed_stack; bool g_printed_raw;
int verif_expect_throw; int verif_thrown;
