// sv_env.h -- std::string_view reduced to (pointer, length) with the two members ParseFixedPoint uses
#pragma once
namespace std { class string_view { public: const char* p; size_t n; string_view(const char* p_, size_t n_) : p(p_), n(n_) {} size_t size() const { return n; }
    const char& operator[](size_t i) const { __CPROVER_assert(i < n, "std::string_view precondition: index in range"); return p[i]; } }; }
int verif_expect_throw; int verif_thrown;
