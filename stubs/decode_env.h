// decode_env.h -- little-endian readers (crypto/common.h uses le16toh/memcpy; x86-64 assumed)
#pragma once
inline uint16_t ReadLE16(const unsigned char* p) { return (uint16_t)(p[0] | (p[1] << 8)); }
inline uint32_t ReadLE32(const unsigned char* p) { return (uint32_t)p[0] | ((uint32_t)p[1] << 8) | ((uint32_t)p[2] << 16) | ((uint32_t)p[3] << 24); }
int verif_expect_throw; int verif_thrown;
