// step_env_mid.h -- stub CScript (byte vector + pointer iterators), uint256, CTxIn constant, hashers as uninterpreted
// functions recorded in ghost state, pretend-valid tables as uninterpreted membership/lookup.
#pragma once
// ---- ghost: the operation GetOp will return (contract of GetScriptOp, proved separately in C01/getscriptop)
extern bool g_getop_ok; extern opcodetype g_getop_opcode; extern verif_bytes g_getop_push; extern size_t g_getop_adv; extern int g_getop_calls;
class CScript : public verif_scriptbytes {
public:
    typedef const unsigned char* const_iterator;
    CScript() {}
    CScript(const unsigned char* b, const unsigned char* e) : verif_scriptbytes(b, e) {}
    // contract stub: returns the ghost decoded operation and advances pc by its encoded length
    bool GetOp(const_iterator& pc, opcodetype& opcodeRet, verif_bytes& vchRet) const {
        g_getop_calls = g_getop_calls + 1;
        opcodeRet = g_getop_opcode; vchRet = g_getop_push; pc += g_getop_adv; return g_getop_ok;
    }
    bool GetOp(const_iterator& pc, opcodetype& opcodeRet) const { verif_bytes t; return GetOp(pc, opcodeRet, t); }
    CScript& operator<<(const verif_bytes& b);
    bool IsPayToScriptHash() const;
};
class uint256 { public: unsigned char m_data[32]; unsigned char* begin() { return m_data; } unsigned char* end() { return m_data + 32; }
    const unsigned char* begin() const { return m_data; } const unsigned char* end() const { return m_data + 32; } };
class CTxIn { public: static const uint32_t SEQUENCE_LOCKTIME_DISABLE_FLAG = (1U << 31); };
class CPubKey { public: static const unsigned int SIZE = 65; static const unsigned int COMPRESSED_SIZE = 33; static bool CheckLowS(const verif_bytes& vchSig); };
// ---- hashers: uninterpreted. ghost log: which algorithm was fed which bytes; output = ghost value chosen by the harness
enum { VH_NONE = 0, VH_RIPEMD160 = 1, VH_SHA1 = 2, VH_SHA256 = 3, VH_HASH160 = 4, VH_HASH256 = 5 };
extern int g_hash_algo; extern int g_hash_calls; extern verif_bytes g_hash_in; extern unsigned char g_hash_out[32];
#define VERIF_RAW_HASHER(NAME, ALGO, LEN) class NAME { public: int verif_dummy; NAME() : verif_dummy(0) {} \
    NAME& Write(const unsigned char* p, size_t n) { g_hash_algo = ALGO; g_hash_calls = g_hash_calls + 1; g_hash_in = verif_bytes(p, p + n); return *this; } \
    void Finalize(unsigned char* o) { for (size_t i = 0; i < LEN; ++i) o[i] = g_hash_out[i]; } };
VERIF_RAW_HASHER(CRIPEMD160, VH_RIPEMD160, 20)
VERIF_RAW_HASHER(CSHA1, VH_SHA1, 20)
VERIF_RAW_HASHER(CSHA256, VH_SHA256, 32)
#define VERIF_VEC_HASHER(NAME, ALGO, LEN) class NAME { public: int verif_dummy; NAME() : verif_dummy(0) {} \
    NAME& Write(const verif_bytes& v) { g_hash_algo = ALGO; g_hash_calls = g_hash_calls + 1; g_hash_in = v; return *this; } \
    void Finalize(verif_bytes& o) { __CPROVER_assert(o.size() >= LEN, "hash output buffer large enough"); for (size_t i = 0; i < LEN; ++i) o.s.a[i] = g_hash_out[i]; } };
VERIF_VEC_HASHER(CHash160, VH_HASH160, 20)
VERIF_VEC_HASHER(CHash256, VH_HASH256, 32)
// ---- --pretend-valid tables: uninterpreted membership / lookup (same key => same answer within one query)
class verif_bytes_map { public: int verif_dummy; verif_bytes_map() : verif_dummy(0) {} size_t size() const; size_t count(const verif_bytes&) const; const verif_bytes& at(const verif_bytes&) const; };
class verif_bytes_set { public: int verif_dummy; verif_bytes_set() : verif_dummy(0) {} size_t size() const; size_t count(const verif_bytes&) const; };
