// verif_std.h -- the ASSUMED model of the C++ standard library pieces used by the sliced btcdeb code.
// CBMC 6.11's C++ front end cannot parse libstdc++; every proof over a sliced unit rests on this file
// (listed under "assumptions" in every evidence file; differential self-test: tools/stub_selftest.cpp).
//
// Conventions
//  * container preconditions (operator[], back(), pop_back(), iterator validity) are OBLIGATIONS
//    ("std::vector precondition ...") -- a violation is undefined behaviour in the real program.
//  * "verif-limit: ..." obligations mark the edge of the model (storage capacity, window depth).
//    A failing verif-limit obligation makes the check exit 2 (undecided), never a VIOLATION.
//  * exceptions: every throw site in sliced code is rewritten to VERIF_THROW(kind) (see tools/slice.py R-THROW).
//    mode A (default): the harness states which exception the spec expects (verif_expect_throw); the throw
//    site asserts agreement and ends the path.  mode B (-DVERIF_THROW_REAL): records the kind and really throws.
#pragma once
typedef unsigned long size_t;
typedef long ssize_t;
typedef long ptrdiff_t;
typedef signed char int8_t;
typedef short int16_t;
typedef int int32_t;
typedef long int64_t;
typedef unsigned char uint8_t;
typedef unsigned short uint16_t;
typedef unsigned int uint32_t;
typedef unsigned long uint64_t;
typedef unsigned long uintptr_t;

#ifndef VERIF_ITEM_CAP
#define VERIF_ITEM_CAP 64
#endif
#ifndef VERIF_ORACLE_N
#define VERIF_ORACLE_N 24   /* capacity of the oracle call logs (signature checker, FindAndDelete) */
#endif
#ifndef VERIF_STACK_W
#define VERIF_STACK_W 4
#endif

#define VERIF_LIMIT_int64_t_max 9223372036854775807L
#define VERIF_LIMIT_int64_t_min (-9223372036854775807L-1)
#define VERIF_LIMIT_int_max 2147483647
#define VERIF_LIMIT_int_min (-2147483647-1)
#define VERIF_LIMIT_uint32_t_max 4294967295U

enum { VT_NONE = 0, VT_SCRIPTNUM_OVERFLOW = 1, VT_SCRIPTNUM_NONMINIMAL = 2, VT_POPSTACK_EMPTY = 3, VT_OUT_OF_RANGE = 4,
       VT_RUNTIME = 5, VT_INVALID_OPCODE = 6, VT_IOS_FAILURE = 7, VT_OTHER = 8 };
extern int verif_expect_throw;   // mode A: set by the harness from the spec before the call
extern int verif_thrown;         // mode B: kind of the exception in flight (0 = none)
#if defined(VERIF_NATIVE_SELFTEST)
#define VERIF_THROW(kind_) throw ::std::out_of_range("verif")
#elif defined(VERIF_THROW_REAL)
struct verif_exception { int kind; };
#define VERIF_THROW(kind_) do { verif_thrown = (kind_); verif_exception verif_e_; verif_e_.kind = (kind_); throw verif_e_; } while (0)
#else
#define VERIF_THROW(kind_) do { __CPROVER_assert(verif_expect_throw == (kind_), "exception raised only where the rules prescribe this failure [" #kind_ "]"); __CPROVER_assume(0); } while (0)
#endif

#define assert(x) __CPROVER_assert((x), "assert() in btcdeb code: " #x)
#define VERIF_LIMIT(cond, what) do { __CPROVER_assert((cond), "verif-limit: " what); __CPROVER_assume(cond); } while (0)

bool nondet_bool();
unsigned char nondet_uchar();
unsigned int nondet_uint();
int nondet_int();
size_t nondet_size();
long nondet_long();

// ------------------------------------------------------------------ std::vector<unsigned char>
#define VB_NAME verif_bytes
#define VB_ARR verif_bytes_arr
#define VB_CAP VERIF_ITEM_CAP
#include "verif_bytes_body.h"
#undef VB_NAME
#undef VB_ARR
#undef VB_CAP
#ifndef VERIF_SCRIPT_CAP
#define VERIF_SCRIPT_CAP 40
#endif
#define VB_NAME verif_scriptbytes
#define VB_ARR verif_scriptbytes_arr
#define VB_CAP VERIF_SCRIPT_CAP
#include "verif_bytes_body.h"
#undef VB_NAME
#undef VB_ARR
#undef VB_CAP

// ------------------------------------------------------------------ std::vector<std::vector<unsigned char>>
// Ghost-prefix window: logical size base+n; only the top n (<= VERIF_STACK_W) items have storage.
// NOTE (CBMC 6.11 defect, reproduced in tools/cbmc_bug_symbolic_struct_index.c): dereferencing a byte pointer that was
// derived from `array_of_structs + symbolic_index` reads a wrong value for offset 0 of the element.  Window elements
// are therefore ALWAYS selected through sel(k) (an if-chain over literal indices) and iterators are index objects,
// never raw pointers.
struct verif_stack_iter {
    size_t idx;   // index into the window (0..n)
    verif_stack_iter operator-(long k) const { verif_stack_iter r; r.idx = idx - (size_t)k; return r; }
    verif_stack_iter operator+(long k) const { verif_stack_iter r; r.idx = idx + (size_t)k; return r; }
    long operator-(const verif_stack_iter& o) const { return (long)(idx - o.idx); }
    bool operator==(const verif_stack_iter& o) const { return idx == o.idx; }
    bool operator!=(const verif_stack_iter& o) const { return idx != o.idx; }
};
class verif_stack {
public:
    size_t base; verif_bytes w[VERIF_STACK_W]; size_t n;
    typedef verif_stack_iter iterator; typedef verif_stack_iter const_iterator;
    verif_stack() : base(0), n(0) {}
    verif_stack(const verif_stack& o) : base(o.base), n(o.n) { for (size_t i = 0; i < VERIF_STACK_W; ++i) w[i] = *(o.w + i); }
    verif_stack& operator=(const verif_stack& o) { base = o.base; n = o.n; for (size_t i = 0; i < VERIF_STACK_W; ++i) w[i] = *(o.w + i); return *this; }
    verif_bytes& sel(size_t k) {
#if VERIF_STACK_W > 1
        if (k == 1) return w[1];
#endif
#if VERIF_STACK_W > 2
        if (k == 2) return w[2];
#endif
#if VERIF_STACK_W > 3
        if (k == 3) return w[3];
#endif
#if VERIF_STACK_W > 4
        if (k == 4) return w[4];
#endif
#if VERIF_STACK_W > 5
        if (k == 5) return w[5];
#endif
#if VERIF_STACK_W > 6
        if (k == 6) return w[6];
#endif
#if VERIF_STACK_W > 7
        if (k == 7) return w[7];
#endif
#if VERIF_STACK_W > 8
        if (k == 8) return w[8];
#endif
#if VERIF_STACK_W > 9
        if (k == 9) return w[9];
#endif
#if VERIF_STACK_W > 10
        if (k == 10) return w[10];
#endif
#if VERIF_STACK_W > 11
        if (k == 11) return w[11];
#endif
#if VERIF_STACK_W > 12
        for (size_t j = 12; j < VERIF_STACK_W; ++j) if (k == j) return w[j];
#endif
        return w[0];
    }
    size_t size() const { return base + n; }
    bool empty() const { return base + n == 0; }
    verif_bytes& at(size_t i) {
        if (i >= base + n) VERIF_THROW(VT_OUT_OF_RANGE);
        VERIF_LIMIT(i >= base, "stack access below the modelled window");
        return sel(i - base);
    }
    const verif_bytes& at(size_t i) const { return const_cast<verif_stack*>(this)->at(i); }
    verif_bytes& operator[](size_t i) {
        __CPROVER_assert(i < base + n, "std::vector precondition: operator[] index in range");
        VERIF_LIMIT(i >= base, "stack access below the modelled window");
        return sel(i - base);
    }
    const verif_bytes& operator[](size_t i) const { return const_cast<verif_stack*>(this)->operator[](i); }
    verif_bytes& back() {
        __CPROVER_assert(base + n > 0, "std::vector precondition: back() on non-empty vector");
        VERIF_LIMIT(n > 0, "stack access below the modelled window");
        return sel(n - 1);
    }
    const verif_bytes& back() const { return const_cast<verif_stack*>(this)->back(); }
    void push_back(const verif_bytes& v) { verif_bytes t = v; VERIF_LIMIT(n < VERIF_STACK_W, "stack window capacity"); sel(n) = t; n = n + 1; }
    void pop_back() {
        __CPROVER_assert(base + n > 0, "std::vector precondition: pop_back() on non-empty vector");
        VERIF_LIMIT(n > 0, "stack access below the modelled window");
        n = n - 1;
    }
    void clear() { base = 0; n = 0; }
    // iterators address the window only: end() is window index n; end()-k with k > n is outside the window
    verif_stack_iter end() const { verif_stack_iter r; r.idx = n; return r; }
    verif_stack_iter begin() const { VERIF_LIMIT(base == 0, "begin() of a stack with hidden items"); verif_stack_iter r; r.idx = 0; return r; }
    verif_stack_iter erase(verif_stack_iter p) {
        size_t pos = p.idx;
        if (base == 0) __CPROVER_assert(pos < n, "std::vector precondition: erase position valid");   // no hidden items: an out-of-range iterator is a defect of the code
        VERIF_LIMIT(pos <= VERIF_STACK_W, "stack access below the modelled window");
        __CPROVER_assert(pos < n, "std::vector precondition: erase position valid");
        for (size_t i = 0; i + 1 < VERIF_STACK_W; ++i) if (i >= pos && i + 1 < n) w[i] = w[i + 1];
        n = n - 1; return p;
    }
    verif_stack_iter erase(verif_stack_iter b, verif_stack_iter e) {
        size_t pb = b.idx; size_t pe = e.idx;
        if (base == 0) __CPROVER_assert(pb <= pe && pe <= n, "std::vector precondition: erase range valid");
        VERIF_LIMIT(pb <= VERIF_STACK_W && pe <= VERIF_STACK_W, "stack access below the modelled window");
        __CPROVER_assert(pb <= pe && pe <= n, "std::vector precondition: erase range valid");
        size_t k = pe - pb;
        for (size_t i = 0; i < VERIF_STACK_W; ++i) if (i >= pb && i + k < n) w[i] = sel(i + k);
        n = n - k; return b;
    }
    verif_stack_iter insert(verif_stack_iter p, const verif_bytes& v) {
        size_t pos = p.idx; verif_bytes tmp = v;
        if (base == 0) __CPROVER_assert(pos <= n, "std::vector precondition: insert position valid");
        VERIF_LIMIT(pos <= VERIF_STACK_W, "stack access below the modelled window");
        __CPROVER_assert(pos <= n, "std::vector precondition: insert position valid");
        VERIF_LIMIT(n < VERIF_STACK_W, "stack window capacity");
        for (size_t j = VERIF_STACK_W - 1; j > 0; --j) if (j > pos && j <= n) w[j] = w[j - 1];
        sel(pos) = tmp; n = n + 1; return p;
    }
};

// libc memcmp / memcpy (bounded model: at most 520 bytes)
inline int memcmp(const void* a, const void* b, size_t n) {
    const unsigned char* x = (const unsigned char*)a; const unsigned char* y = (const unsigned char*)b;
    for (size_t i = 0; i < 520; ++i) { if (i >= n) break; if (x[i] != y[i]) return x[i] < y[i] ? -1 : 1; }
    VERIF_LIMIT(n <= 520, "memcmp modelled for at most 520 bytes");
    return 0;
}
// libc string functions (bounded models: strings of at most 200 characters)
inline size_t strlen(const char* a) { size_t n = 0; for (size_t i = 0; i < 200; ++i) { if (a[i] == 0) break; n = i + 1; } VERIF_LIMIT(a[n] == 0, "strlen modelled for at most 200 characters"); return n; }
inline int strncmp(const char* a, const char* b, size_t n) { for (size_t i = 0; i < 200; ++i) { if (i >= n) break; unsigned char x = (unsigned char)a[i], y = (unsigned char)b[i]; if (x != y) return x < y ? -1 : 1; if (x == 0) return 0; } VERIF_LIMIT(n <= 200, "strncmp modelled for at most 200 characters"); return 0; }
inline int strcmp(const char* a, const char* b) { return strncmp(a, b, 200); }
namespace std {
template<typename T> void swap(T& a, T& b) { T t = a; a = b; b = t; }
template<typename T> T&& move(T& a) { return (T&&)a; }
class string {
public:
    const char* p;
    string() : p("") {}
    string(const char* s) : p(s) {}
    const char* c_str() const { return p; }
};
class runtime_error {
public:
    explicit runtime_error(const string& s) {}
    explicit runtime_error(const char* s) {}
};
inline bool equal(const unsigned char* b1, const unsigned char* e1, const unsigned char* b2) {
    size_t n = e1 - b1;
    for (size_t i = 0; i < 80; ++i) { if (i >= n) break; if (b1[i] != b2[i]) return false; }
    VERIF_LIMIT(n <= 80, "std::equal modelled for ranges <= 80 bytes");
    return true;
}
inline bool lexicographical_compare(const unsigned char* b1, const unsigned char* e1, const unsigned char* b2, const unsigned char* e2) {
    size_t n1 = e1 - b1, n2 = e2 - b2;
    for (size_t i = 0; i < 32; ++i) {   // model: ranges of at most 32 bytes (uint256 / control-block nodes)
        if (i >= n1 || i >= n2) break;
        if (b1[i] < b2[i]) return true;
        if (b2[i] < b1[i]) return false;
    }
    VERIF_LIMIT(n1 <= 32 && n2 <= 32, "lexicographical_compare modelled for ranges <= 32 bytes");
    return n1 < n2;
}
} // namespace std
using std::swap;
