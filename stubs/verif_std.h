// verif_std.h -- the ASSUMED model of the C++ standard library pieces used by the sliced btcdeb code.
// CBMC 6.11's C++ front end cannot parse libstdc++; every proof over a sliced unit rests on this file
// (listed under "assumptions" in every evidence file; differential self-test: tools/stub_selftest.cpp).
//
// Conventions
//  * container preconditions (operator[], back(), pop_back(), iterator validity) are OBLIGATIONS
//    ("std::vector precondition ...") -- a violation is undefined behaviour in the real program.
//  * "verif-limit: ..." obligations mark the edge of the model (storage capacity, window depth).
//    A failing verif-limit obligation makes the check exit 2 (undecided), never a VIOLATION.
//  * exceptions: every throw site in sliced code is rewritten to VERIF_THROW(kind) (see tools/slice.py R-THROW).
//    mode A (default): the harness states which exception the spec expects (verif_expect_throw); the throw
//    site asserts agreement and ends the path.  mode B (-DVERIF_THROW_REAL): records the kind and really throws.
#pragma once
typedef unsigned long size_t;
typedef long ssize_t;
typedef long ptrdiff_t;
typedef signed char int8_t;
typedef short int16_t;
typedef int int32_t;
typedef long int64_t;
typedef unsigned char uint8_t;
typedef unsigned short uint16_t;
typedef unsigned int uint32_t;
typedef unsigned long uint64_t;
typedef unsigned long uintptr_t;

#ifndef VERIF_ITEM_CAP
#define VERIF_ITEM_CAP 64
#endif
#ifndef VERIF_STACK_W
#define VERIF_STACK_W 4
#endif

#define VERIF_LIMIT_int64_t_max 9223372036854775807L
#define VERIF_LIMIT_int64_t_min (-9223372036854775807L-1)
#define VERIF_LIMIT_int_max 2147483647
#define VERIF_LIMIT_int_min (-2147483647-1)
#define VERIF_LIMIT_uint32_t_max 4294967295U

enum { VT_NONE = 0, VT_SCRIPTNUM_OVERFLOW = 1, VT_SCRIPTNUM_NONMINIMAL = 2, VT_POPSTACK_EMPTY = 3, VT_OUT_OF_RANGE = 4,
       VT_RUNTIME = 5, VT_INVALID_OPCODE = 6, VT_IOS_FAILURE = 7, VT_OTHER = 8 };
extern int verif_expect_throw;   // mode A: set by the harness from the spec before the call
extern int verif_thrown;         // mode B: kind of the exception in flight (0 = none)
#ifdef VERIF_THROW_REAL
struct verif_exception { int kind; };
#define VERIF_THROW(kind_) do { verif_thrown = (kind_); verif_exception verif_e_; verif_e_.kind = (kind_); throw verif_e_; } while (0)
#else
#define VERIF_THROW(kind_) do { __CPROVER_assert(verif_expect_throw == (kind_), "exception raised only where the rules prescribe this failure [" #kind_ "]"); __CPROVER_assume(0); } while (0)
#endif

#define assert(x) __CPROVER_assert((x), "assert() in btcdeb code: " #x)
#define VERIF_LIMIT(cond, what) do { __CPROVER_assert((cond), "verif-limit: " what); __CPROVER_assume(cond); } while (0)

bool nondet_bool();
unsigned char nondet_uchar();
unsigned int nondet_uint();
int nondet_int();
size_t nondet_size();
long nondet_long();

// ------------------------------------------------------------------ std::vector<unsigned char>
struct verif_bytes_arr { unsigned char a[VERIF_ITEM_CAP]; };
class verif_bytes {
public:
    verif_bytes_arr s; size_t n;
    typedef unsigned char* iterator; typedef const unsigned char* const_iterator;
    typedef unsigned char value_type;
    verif_bytes() : n(0) {}
    verif_bytes(const verif_bytes& o) : s(o.s), n(o.n) {}
    verif_bytes& operator=(const verif_bytes& o) { s = o.s; n = o.n; return *this; }
    explicit verif_bytes(size_t k) : n(0) { VERIF_LIMIT(k <= VERIF_ITEM_CAP, "byte vector storage capacity"); for (size_t i = 0; i < VERIF_ITEM_CAP; ++i) if (i < k) s.a[i] = 0; n = k; }
    verif_bytes(size_t k, const unsigned char& v) : n(0) { VERIF_LIMIT(k <= VERIF_ITEM_CAP, "byte vector storage capacity"); for (size_t i = 0; i < VERIF_ITEM_CAP; ++i) if (i < k) s.a[i] = v; n = k; }
    verif_bytes(const unsigned char* b, const unsigned char* e) : n(0) { size_t k = e - b; VERIF_LIMIT(k <= VERIF_ITEM_CAP, "byte vector storage capacity"); for (size_t i = 0; i < VERIF_ITEM_CAP; ++i) if (i < k) s.a[i] = b[i]; n = k; }
    size_t size() const { return n; }
    bool empty() const { return n == 0; }
    unsigned char* data() { return s.a; }
    const unsigned char* data() const { return s.a; }
    unsigned char* begin() { return s.a; }
    const unsigned char* begin() const { return s.a; }
    unsigned char* end() { return s.a + n; }
    const unsigned char* end() const { return s.a + n; }
    unsigned char& operator[](size_t i) { __CPROVER_assert(i < n, "std::vector precondition: operator[] index in range"); return s.a[i]; }
    const unsigned char& operator[](size_t i) const { __CPROVER_assert(i < n, "std::vector precondition: operator[] index in range"); return s.a[i]; }
    unsigned char& at(size_t i) { if (i >= n) VERIF_THROW(VT_OUT_OF_RANGE); return s.a[i]; }
    const unsigned char& at(size_t i) const { if (i >= n) VERIF_THROW(VT_OUT_OF_RANGE); return s.a[i]; }
    unsigned char& back() { __CPROVER_assert(n > 0, "std::vector precondition: back() on non-empty vector"); return s.a[n - 1]; }
    const unsigned char& back() const { __CPROVER_assert(n > 0, "std::vector precondition: back() on non-empty vector"); return s.a[n - 1]; }
    unsigned char& front() { __CPROVER_assert(n > 0, "std::vector precondition: front() on non-empty vector"); return s.a[0]; }
    void push_back(const unsigned char& v) { unsigned char t = v; VERIF_LIMIT(n < VERIF_ITEM_CAP, "byte vector storage capacity"); s.a[n] = t; n = n + 1; }
    void pop_back() { __CPROVER_assert(n > 0, "std::vector precondition: pop_back() on non-empty vector"); n = n - 1; }
    void clear() { n = 0; }
    void resize(size_t k) { VERIF_LIMIT(k <= VERIF_ITEM_CAP, "byte vector storage capacity"); for (size_t i = 0; i < VERIF_ITEM_CAP; ++i) if (i >= n && i < k) s.a[i] = 0; n = k; }
    void assign(const unsigned char* b, const unsigned char* e) { size_t k = e - b; VERIF_LIMIT(k <= VERIF_ITEM_CAP, "byte vector storage capacity"); for (size_t i = 0; i < VERIF_ITEM_CAP; ++i) if (i < k) s.a[i] = b[i]; n = k; }
    // insert(end(), b, e) and general position insert
    void insert(unsigned char* p, const unsigned char* b, const unsigned char* e) {
        size_t pos = p - s.a; size_t k = e - b;
        __CPROVER_assert(pos <= n, "std::vector precondition: insert position valid");
        VERIF_LIMIT(pos == n, "range insert modelled at end() only");
        VERIF_LIMIT(n + k <= VERIF_ITEM_CAP && k <= VERIF_ITEM_CAP, "byte vector storage capacity");
        for (size_t i = 0; i < VERIF_ITEM_CAP; ++i) if (i < k && n + i < VERIF_ITEM_CAP) s.a[n + i] = b[i];
        n = n + k;
    }
    unsigned char* insert(unsigned char* p, const unsigned char& v) {
        size_t pos = p - s.a; unsigned char t = v;
        __CPROVER_assert(pos <= n, "std::vector precondition: insert position valid");
        VERIF_LIMIT(pos == n, "single insert modelled at end() only");
        VERIF_LIMIT(n < VERIF_ITEM_CAP, "byte vector storage capacity");
        s.a[n] = t; n = n + 1; return p;
    }
    unsigned char* erase(unsigned char* b, unsigned char* e) {
        size_t pb = b - s.a; size_t pe = e - s.a;
        __CPROVER_assert(pb <= pe && pe <= n, "std::vector precondition: erase range valid");
        size_t k = pe - pb;
        for (size_t i = 0; i < VERIF_ITEM_CAP; ++i) if (i >= pb && i + k < n) s.a[i] = s.a[i + k];
        n = n - k; return b;
    }
    unsigned char* erase(unsigned char* p) {
        size_t pos = p - s.a;
        __CPROVER_assert(pos < n, "std::vector precondition: erase position valid");
        for (size_t i = 0; i + 1 < VERIF_ITEM_CAP; ++i) if (i >= pos && i + 1 < n) s.a[i] = s.a[i + 1];
        n = n - 1; return p;
    }
    bool operator==(const verif_bytes& o) const { if (n != o.n) return false; for (size_t i = 0; i < VERIF_ITEM_CAP; ++i) if (i < n && s.a[i] != o.s.a[i]) return false; return true; }
    bool operator!=(const verif_bytes& o) const { return !(*this == o); }
};

// ------------------------------------------------------------------ std::vector<std::vector<unsigned char>>
// Ghost-prefix window: logical size base+n; only the top n (<= VERIF_STACK_W) items have storage.
class verif_stack {
public:
    size_t base; verif_bytes w[VERIF_STACK_W]; size_t n;
    typedef verif_bytes* iterator; typedef const verif_bytes* const_iterator;
    verif_stack() : base(0), n(0) {}
    verif_stack(const verif_stack& o) : base(o.base), n(o.n) { for (size_t i = 0; i < VERIF_STACK_W; ++i) w[i] = *(o.w + i); }
    verif_stack& operator=(const verif_stack& o) { base = o.base; n = o.n; for (size_t i = 0; i < VERIF_STACK_W; ++i) w[i] = *(o.w + i); return *this; }
    size_t size() const { return base + n; }
    bool empty() const { return base + n == 0; }
    verif_bytes& at(size_t i) {
        if (i >= base + n) VERIF_THROW(VT_OUT_OF_RANGE);
        VERIF_LIMIT(i >= base, "stack access below the modelled window");
        return *(w + (i - base));
    }
    const verif_bytes& at(size_t i) const { return const_cast<verif_stack*>(this)->at(i); }
    verif_bytes& operator[](size_t i) {
        __CPROVER_assert(i < base + n, "std::vector precondition: operator[] index in range");
        VERIF_LIMIT(i >= base, "stack access below the modelled window");
        return *(w + (i - base));
    }
    const verif_bytes& operator[](size_t i) const { return const_cast<verif_stack*>(this)->operator[](i); }
    verif_bytes& back() {
        __CPROVER_assert(base + n > 0, "std::vector precondition: back() on non-empty vector");
        VERIF_LIMIT(n > 0, "stack access below the modelled window");
        return *(w + (n - 1));
    }
    const verif_bytes& back() const { return const_cast<verif_stack*>(this)->back(); }
    void push_back(const verif_bytes& v) { verif_bytes t = v; VERIF_LIMIT(n < VERIF_STACK_W, "stack window capacity"); w[n] = t; n = n + 1; }
    void pop_back() {
        __CPROVER_assert(base + n > 0, "std::vector precondition: pop_back() on non-empty vector");
        VERIF_LIMIT(n > 0, "stack access below the modelled window");
        n = n - 1;
    }
    void clear() { base = 0; n = 0; }
    // iterators address the window only; end()-k with k > n is outside the window
    verif_bytes* begin() { VERIF_LIMIT(base == 0, "begin() of a stack with hidden items"); return w; }
    verif_bytes* end() { return w + n; }
    const verif_bytes* begin() const { return const_cast<verif_stack*>(this)->begin(); }
    const verif_bytes* end() const { return w + n; }
    verif_bytes* erase(verif_bytes* p) {
        VERIF_LIMIT(__CPROVER_same_object(p, w), "stack access below the modelled window");
        size_t pos = p - w;
        __CPROVER_assert(pos < n, "std::vector precondition: erase position valid");
        for (size_t i = 0; i + 1 < VERIF_STACK_W; ++i) if (i >= pos && i + 1 < n) w[i] = w[i + 1];
        n = n - 1; return p;
    }
    verif_bytes* erase(verif_bytes* b, verif_bytes* e) {
        VERIF_LIMIT(__CPROVER_same_object(b, w) && __CPROVER_same_object(e, w), "stack access below the modelled window");
        size_t pb = b - w; size_t pe = e - w;
        __CPROVER_assert(pb <= pe && pe <= n, "std::vector precondition: erase range valid");
        size_t k = pe - pb;
        for (size_t i = 0; i < VERIF_STACK_W; ++i) if (i >= pb && i + k < n) w[i] = w[i + k];
        n = n - k; return b;
    }
    verif_bytes* insert(verif_bytes* p, const verif_bytes& v) {
        VERIF_LIMIT(__CPROVER_same_object(p, w), "stack access below the modelled window");
        size_t pos = p - w; verif_bytes tmp = v;
        __CPROVER_assert(pos <= n, "std::vector precondition: insert position valid");
        VERIF_LIMIT(n < VERIF_STACK_W, "stack window capacity");
        for (size_t j = VERIF_STACK_W - 1; j > 0; --j) if (j > pos && j <= n) w[j] = w[j - 1];
        w[pos] = tmp; n = n + 1; return p;
    }
};

namespace std {
template<typename T> void swap(T& a, T& b) { T t = a; a = b; b = t; }
template<typename T> T&& move(T& a) { return (T&&)a; }
class string {
public:
    const char* p;
    string() : p("") {}
    string(const char* s) : p(s) {}
    const char* c_str() const { return p; }
};
class runtime_error {
public:
    explicit runtime_error(const string& s) {}
    explicit runtime_error(const char* s) {}
};
inline bool lexicographical_compare(const unsigned char* b1, const unsigned char* e1, const unsigned char* b2, const unsigned char* e2) {
    size_t n1 = e1 - b1, n2 = e2 - b2;
    for (size_t i = 0; i < 32; ++i) {   // model: ranges of at most 32 bytes (uint256 / control-block nodes)
        if (i >= n1 || i >= n2) break;
        if (b1[i] < b2[i]) return true;
        if (b2[i] < b1[i]) return false;
    }
    VERIF_LIMIT(n1 <= 32 && n2 <= 32, "lexicographical_compare modelled for ranges <= 32 bytes");
    return n1 < n2;
}
} // namespace std
using std::swap;
