// listcount_env.h -- environment of the section / line-count part of the listing builder: scripts by identity with the number of
// operations GetOp will deliver (ghost), the P2SH pattern test as a per-script oracle, the commitment description by its length.
#pragma once
typedef int opcodetype;
typedef verif_bytes valtype;
extern int count;
class CScript { public:
    typedef size_t const_iterator;
    int nops; bool p2sh_pattern; size_t nbytes; int from_payload;      // ghost: operations GetOp yields, pattern verdict, byte length, 1 = built from a push payload / stack item
    CScript() : nops(0), p2sh_pattern(false), nbytes(0), from_payload(0) {}
    CScript(const unsigned char* b, const unsigned char* e);
    const_iterator begin() const { return 0; }
    size_t size() const { return nbytes; }
    bool GetOp(const_iterator& it, opcodetype& opc, valtype& v) const { if (it >= (size_t)nops) return false; it = it + 1; opc = 0; return true; }
    bool IsPayToScriptHash() const { return p2sh_pattern; }
};
extern int g_payload_nops; extern int g_payload_ctor_calls;
inline CScript::CScript(const unsigned char* b, const unsigned char* e) : nops(g_payload_nops), p2sh_pattern(false), nbytes((size_t)(e - b)), from_payload(1) { g_payload_ctor_calls = g_payload_ctor_calls + 1; }
enum class SigVersion { BASE = 0, WITNESS_V0 = 1, TAPROOT = 2, TAPSCRIPT = 3 };
enum { SCRIPT_VERIFY_P2SH = (1U << 0) };
struct verif_strlist { size_t n; verif_strlist() : n(0) {} void push_back(const char* s) { n = n + 1; } size_t size() const { return n; } };
struct TaprootCommitmentEnv { size_t desc_lines; verif_strlist Description() { verif_strlist r; r.n = desc_lines; return r; } };
struct verif_p2shstack { size_t n; verif_bytes top; size_t size() const { return n; } verif_bytes& back() { return top; } };
struct InterpreterEnv { CScript script; bool is_p2sh; verif_p2shstack p2shstack; SigVersion sigversion; TaprootCommitmentEnv* tce; unsigned int flags; };
struct Instance { CScript successor_script; };
struct verif_scriptptrs { CScript* p[4]; size_t n; verif_scriptptrs() : n(0) {} verif_scriptptrs& operator=(const verif_scriptptrs& o) { n = o.n; p[0] = o.p[0]; p[1] = o.p[1]; p[2] = o.p[2]; p[3] = o.p[3]; return *this; } void push_back(CScript* s) { VERIF_LIMIT(n < 4, "section list capacity"); p[n] = s; n = n + 1; } size_t size() const { return n; } };
int count; int g_payload_nops; int g_payload_ctor_calls; int verif_expect_throw; int verif_thrown;
