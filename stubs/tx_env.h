// tx_env.h -- stub transaction types for Instance::parse_input_transaction (C03 fragment): a transaction is its list of
// inputs (prevout hash, prevout index) and an identifier; parsing (parse_tx) and hashing (GetHash) are oracles.
#pragma once
#ifndef PRId64
#define PRId64 "ld"
#endif
#ifndef VERIF_MAX_VIN
#define VERIF_MAX_VIN 3
#endif
class uint256 { public: unsigned char m_data[32];
    bool operator==(const uint256& o) const { for (int i = 0; i < 32; ++i) if (m_data[i] != o.m_data[i]) return false; return true; }
    bool operator!=(const uint256& o) const { return !(*this == o); }
    std::string ToString() const { return std::string(); } };
struct COutPoint { uint256 hash; uint32_t n; };
struct CTxIn { COutPoint prevout; };
struct verif_vin { CTxIn a[VERIF_MAX_VIN]; size_t n; size_t size() const { return n; }
    const CTxIn& operator[](size_t i) const { __CPROVER_assert(i < n, "std::vector precondition: operator[] index in range"); return *(a + (i < VERIF_MAX_VIN ? i : 0)); } };
struct verif_vout { size_t n; size_t size() const { return n; } };      // outputs by their number
struct CTransaction { verif_vin vin; verif_vout vout; uint256 id; const uint256& GetHash() const { return const_cast<CTransaction*>(this)->id; } };
typedef CTransaction* CTransactionRef;     // std::shared_ptr<const CTransaction> in the real code: used as a nullable pointer here
extern CTransaction* g_parse_tx_result;
inline CTransactionRef parse_tx(const char* p) { return g_parse_tx_result; }
struct verif_FILE; verif_FILE* stderr;
int fprintf(verif_FILE* f, const char* fmt...) { return 0; }
CTransaction* g_parse_tx_result; int verif_expect_throw; int verif_thrown;
class Instance { public: CTransactionRef tx; CTransactionRef txin; int64_t txin_index; int64_t txin_vout_index;
    bool parse_input_transaction(const char* txdata, int select_index = -1); };
