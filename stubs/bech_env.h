// bech_env.h -- environment of the first part of Value::do_bech32dec: bech32::Decode is an oracle (encoding verdict, data part of
// any length including empty - a checksum-valid bech32 string may carry no data symbols at all, e.g. "bc1gmk9yu").
#pragma once
namespace std { struct verif_sstr { int d; verif_sstr() : d(0) {} const char* c_str() const { return ""; } }; }
#define string verif_sstr
namespace bech32 {
enum class Encoding { INVALID, BECH32, BECH32M };
struct DecodeResult { Encoding encoding; std::verif_sstr hrp; verif_bytes data; };
}
extern bech32::DecodeResult g_bech_result; extern int g_bech_calls;
namespace bech32 { inline DecodeResult Decode(const std::verif_sstr& s) { g_bech_calls = g_bech_calls + 1; return g_bech_result; } }
struct verif_FILE; verif_FILE* stderr; int fprintf(verif_FILE* f, const char* fmt...) { return 0; }
bech32::DecodeResult g_bech_result; int g_bech_calls; int verif_expect_throw; int verif_thrown;
