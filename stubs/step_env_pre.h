// step_env_pre.h -- stubs for btcdeb-internal dependencies of the stepping code that are out of scope of the proofs
// (logging, hex printing). Output is not part of any step contract (rule R-LOG).
#pragma once
typedef void (*btc_logf_t)(const char* fmt...);
void btc_logf_dummy(const char* fmt...) {}
btc_logf_t btc_logf = btc_logf_dummy, btc_sighash_logf = btc_logf_dummy, btc_sign_logf = btc_logf_dummy, btc_segwit_logf = btc_logf_dummy, btc_taproot_logf = btc_logf_dummy;
bool btcdeb_verbose = false;
int printf(const char* fmt...) { return 0; }
struct verif_FILE; verif_FILE* stderr; 
int fprintf(verif_FILE* f, const char* fmt...) { return 0; }
typedef verif_bytes valtype;
struct verif_hexstr { const char* c_str() const { return ""; } };
// HexStr is used for log output only
inline std::string HexStr(const verif_bytes& v) { return std::string(); }
inline std::string HexStr(const verif_scriptbytes& v) { return std::string(); }
