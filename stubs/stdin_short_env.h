// stdin_short_env.h -- stubs for the fragment of main() that reads the script from standard input, byte-exact for short lines:
// fgets / getline deliver a ghost line (getline into a buffer it provides), strlen scans, strdup copies onto a ghost buffer and
// is also used by the fragment for the empty script; free() accepts exactly the buffers handed out.
#pragma once
typedef long ssize_t;
struct verif_FILE; verif_FILE* stderr; verif_FILE* stdin;
int fprintf(verif_FILE* f, const char* fmt...) { return 0; }
extern char g_line[24]; extern bool g_eof; extern char g_dupbuf[1024]; extern char g_linebuf[32]; extern char g_emptybuf[2]; extern int g_free_calls;
inline char* verif_fgets(char* dst, int cap, verif_FILE* f) {
    if (g_eof) return 0;
    for (int i = 0; i < 23; ++i) { dst[i] = g_line[i]; if (g_line[i] == 0) break; }
    dst[23] = 0; return dst;
}
inline ssize_t verif_getline(char** lineptr, size_t* n, verif_FILE* f) {
    if (g_eof) return -1;                                        // (*lineptr stays as the caller initialised it)
    ssize_t k = 0;
    for (int i = 0; i < 23; ++i) { g_linebuf[i] = g_line[i]; if (g_line[i] == 0) break; k = i + 1; }
    g_linebuf[23] = 0; *lineptr = g_linebuf; *n = 32; return k;
}
inline size_t verif_strlen(const char* s) { size_t n = 0; for (size_t i = 0; i < 30; ++i) { if (s[i] == 0) break; n = i + 1; } return n; }
// strdup returns a fresh object per call (two are enough for the fragment); free() accepts exactly what getline / strdup handed out
extern char g_dupbuf2[32]; extern int g_dup_calls; extern bool g_freed_dup[2];
inline char* verif_strdup(const char* s) {
    int k = g_dup_calls; VERIF_LIMIT(k < 2, "strdup call capacity"); g_dup_calls = k + 1;
    char* d = (k == 0) ? g_dupbuf : g_dupbuf2;
    for (int i = 0; i < 24; ++i) { d[i] = s[i]; if (s[i] == 0) break; } d[24] = 0; return d;
}
inline void verif_free(void* p) {
    __CPROVER_assert(p == 0 || p == (void*)g_linebuf || p == (void*)g_dupbuf || p == (void*)g_dupbuf2, "free() only of a buffer getline / strdup handed out");
    if (p == (void*)g_dupbuf) g_freed_dup[0] = true; if (p == (void*)g_dupbuf2) g_freed_dup[1] = true; g_free_calls = g_free_calls + 1;
}
char g_line[24]; bool g_eof; char g_dupbuf[1024]; char g_dupbuf2[32]; int g_dup_calls; bool g_freed_dup[2]; char g_linebuf[32]; char g_emptybuf[2]; int g_free_calls; bool pipe_in = true; int verif_expect_throw; int verif_thrown;
