// stdin_env.h -- stubs for the fragment of main() that reads the script from standard input: fgets as an oracle delivering a
// ghost line, strdup onto a ghost buffer.
#pragma once
struct verif_FILE; verif_FILE* stderr; verif_FILE* stdin;
int fprintf(verif_FILE* f, const char* fmt...) { return 0; }
extern char g_line[24]; extern bool g_eof; extern char g_dupbuf[1024];
inline char* fgets(char* dst, int cap, verif_FILE* f) {
    if (g_eof) return 0;
    for (int i = 0; i < 23; ++i) { dst[i] = g_line[i]; if (g_line[i] == 0) break; }
    dst[23] = 0; return dst;
}
inline char* strdup(const char* s) { for (int i = 0; i < 24; ++i) { g_dupbuf[i] = s[i]; if (s[i] == 0) break; } g_dupbuf[24] = 0; return g_dupbuf; }
char g_line[24]; bool g_eof; char g_dupbuf[1024]; int verif_expect_throw; int verif_thrown;
