// stub: fixed-width types come from verif_std.h
#pragma once
