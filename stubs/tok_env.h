// tok_env.h -- environment of the tokeniser unit (Value::parse_args(const char*, size_t)): strlen on the bounded input, strndup as
// a ghost log of (offset, length) of every token cut out of the input, the token vector by its length, free() as a check,
// fprintf as no-op, exit() as an expectation check.
#pragma once
#ifndef VERIF_TOK_N
#define VERIF_TOK_N 7
#endif
extern const char* g_tok_base; extern int g_tok_calls; extern size_t g_tok_off[VERIF_TOK_N + 2], g_tok_len[VERIF_TOK_N + 2]; extern char g_tok_buf[VERIF_TOK_N + 2][2]; extern int g_tok_freed, g_tok_done, g_tok_pushed;
inline size_t strlen(const char* s) { size_t n = 0; for (size_t i = 0; i < VERIF_TOK_N + 1; ++i) { if (s[i] == 0) break; n = i + 1; } return n; }
inline char* strndup(const char* s, size_t n) {
    int k = g_tok_calls; VERIF_LIMIT(k < VERIF_TOK_N + 2, "token log capacity");
    g_tok_off[k] = (size_t)(s - g_tok_base); g_tok_len[k] = n; g_tok_calls = k + 1; return g_tok_buf[k];
}
inline void free(void* p) { g_tok_freed = g_tok_freed + 1; }
struct verif_ptrvec { size_t n; verif_ptrvec() : n(0) {} void push_back(char* p) { __CPROVER_assert(p == g_tok_buf[n], "spec: tokens are handed on in the order they were cut"); n = n + 1; g_tok_pushed = (int)n; } size_t size() const { return n; } };
inline void verif_tokens_done(const verif_ptrvec& v) { g_tok_done = g_tok_done + 1; }
struct verif_FILE; verif_FILE* stderr; int fprintf(verif_FILE* f, const char* fmt...) { return 0; }
extern int verif_expect_exit;
#define VERIF_EXIT(code) do { __CPROVER_assert(verif_expect_exit == 1, "exit(1) reached only for an unclosed bracket"); __CPROVER_assume(0); } while (0)
const char* g_tok_base; int g_tok_calls; size_t g_tok_off[VERIF_TOK_N + 2], g_tok_len[VERIF_TOK_N + 2]; char g_tok_buf[VERIF_TOK_N + 2][2]; int g_tok_freed, g_tok_done, g_tok_pushed;
int verif_expect_exit; int verif_expect_throw; int verif_thrown;
