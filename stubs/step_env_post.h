// step_env_post.h -- forward declarations the sliced translation unit gets from headers in the real build
#pragma once
bool CastToBool(const valtype& vch);
bool CheckMinimalPush(const verif_bytes& data, opcodetype opcode);
bool StepExtended(ScriptExecutionEnvironment& env, CScript::const_iterator& pc, CScript* local_script);
bool CheckSignatureEncoding(const verif_bytes& vchSig, unsigned int flags, ScriptError* serror);
int FindAndDelete(CScript& script, const CScript& b);
// ghost definitions
bool g_getop_ok; opcodetype g_getop_opcode; verif_bytes g_getop_push; size_t g_getop_adv; int g_getop_calls;
int g_hash_algo; int g_hash_calls; verif_bytes g_hash_in; unsigned char g_hash_out[32];
bool g_locktime_ok, g_sequence_ok; int g_locktime_calls, g_sequence_calls; int64_t g_locktime_arg, g_sequence_arg;
int g_ecdsa_calls; bool g_ecdsa_ok[VERIF_ORACLE_N]; verif_bytes g_ecdsa_sig[VERIF_ORACLE_N]; verif_bytes g_ecdsa_key[VERIF_ORACLE_N]; int g_ecdsa_sigversion[VERIF_ORACLE_N];
int g_schnorr_calls; bool g_schnorr_ok; int g_schnorr_err; verif_bytes g_schnorr_sig, g_schnorr_key; int g_schnorr_sigversion;
int verif_expect_throw; int verif_thrown;
