// svf_rope_env.h -- environment of the flag-listing unit (svf_string): std::string modelled as a ROPE, i.e. the sequence of
// the string pieces it was concatenated from (pointers to the string literals of the table, the separator and "(none)").
// Concatenation, +=, size() and substr() of a leading piece are exact on this representation; anything else is a model limit.
#pragma once
#define VERIF_ROPE_CAP 48
static size_t verif_cstrlen(const char* s) { size_t n = 0; for (size_t i = 0; i < 64; ++i) { if (s[i] == 0) break; n = i + 1; } return n; }
namespace std {
class verif_rope {
public:
    const char* piece[VERIF_ROPE_CAP]; size_t n;
    verif_rope() : n(0) {}
    verif_rope(const char* s) : n(0) { if (s[0] != 0) { piece[0] = s; n = 1; } }
    verif_rope(const verif_rope& o) : n(o.n) { for (size_t i = 0; i < VERIF_ROPE_CAP; ++i) piece[i] = o.piece[i]; }
    verif_rope& operator=(const verif_rope& o) { n = o.n; for (size_t i = 0; i < VERIF_ROPE_CAP; ++i) piece[i] = o.piece[i]; return *this; }
    verif_rope& operator+=(const verif_rope& o) {
        VERIF_LIMIT(n + o.n <= VERIF_ROPE_CAP, "rope capacity");
        for (size_t i = 0; i < VERIF_ROPE_CAP; ++i) if (i < o.n) piece[n + i] = o.piece[i];
        n = n + o.n; return *this;
    }
    verif_rope operator+(const verif_rope& o) const { verif_rope r(*this); r += o; return r; }
    size_t size() const { size_t t = 0; for (size_t i = 0; i < VERIF_ROPE_CAP; ++i) if (i < n) t = t + verif_cstrlen(piece[i]); return t; }
    verif_rope substr(size_t pos) const {
        VERIF_LIMIT(n >= 1 && pos == verif_cstrlen(piece[0]), "substr() removes exactly the leading piece of the rope");
        verif_rope r; r.n = n - 1;
        for (size_t i = 0; i + 1 < VERIF_ROPE_CAP; ++i) r.piece[i] = piece[i + 1];
        return r;
    }
};
}
#define string verif_rope
