// opname_env.h -- environment of GetOpCode (debugger/script.cpp): std::string_view built from a C string, logging off
#pragma once
namespace std { class string_view { public: const char* p; size_t n;
    string_view(const char* s) : p(s), n(strlen(s)) {}
    size_t size() const { return n; }
    const char& operator[](size_t i) const { __CPROVER_assert(i < n, "std::string_view precondition: index in range"); return p[i]; } }; }
typedef void (*btc_logf_t)(const char* fmt...);
void btc_logf_dummy(const char* fmt...) {}
btc_logf_t btc_logf = btc_logf_dummy;
int verif_expect_throw; int verif_thrown;
