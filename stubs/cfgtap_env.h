// cfgtap_env.h -- environment of the witness-v1 branch of Instance::configure_tx_txin: uint256, HashWriter (SHA-256 of a
// serialized byte vector = oracle with ghost-logged input), TaprootCommitmentEnv (construction = ghost-logged arguments; the
// class itself is under contract in the C05 unit), ::GetSerializeSize of a witness stack (oracle with ghost-logged argument),
// fprintf / HexStr as no-ops.
#pragma once
struct verif_FILE; verif_FILE* stderr;
int fprintf(verif_FILE* f, const char* fmt...) { return 0; }
struct verif_cstr { int d; verif_cstr() : d(0) {} const char* c_str() const { return ""; } };
inline verif_cstr HexStr(const verif_bytes& v) { return verif_cstr(); }
#define PROTOCOL_VERSION 70015
class uint256 { public: unsigned char m_data[32];
    uint256() { for (int i = 0; i < 32; ++i) m_data[i] = 0; }
    uint256(const uint256& o) { for (int i = 0; i < 32; ++i) m_data[i] = o.m_data[i]; }
    uint256& operator=(const uint256& o) { for (int i = 0; i < 32; ++i) m_data[i] = o.m_data[i]; return *this; }
    bool operator==(const uint256& o) const { for (int i = 0; i < 32; ++i) if (m_data[i] != o.m_data[i]) return false; return true; } };
// SHA-256 over the serialization of one byte vector (compact size of the length, then the bytes): oracle
extern int g_hw_calls; extern verif_bytes g_hw_arg; extern unsigned char g_hw_digest[32];
class HashWriter { public: bool fed;
    HashWriter() : fed(false) {}
    HashWriter& operator<<(const verif_bytes& v) { VERIF_LIMIT(!fed, "one object per hash writer"); fed = true; g_hw_arg = v; return *this; }
    uint256 GetSHA256() { g_hw_calls = g_hw_calls + 1; uint256 r; for (int i = 0; i < 32; ++i) r.m_data[i] = g_hw_digest[i]; return r; } };
int g_hw_calls; verif_bytes g_hw_arg; unsigned char g_hw_digest[32];
// serialized size of a witness stack: oracle; the argument is logged (item count and each item)
extern int g_ser_calls; extern verif_stack g_ser_arg; extern size_t g_ser_result;
inline size_t GetSerializeSize(const verif_stack& s, int version) { g_ser_calls = g_ser_calls + 1; g_ser_arg = s; return g_ser_result; }
int g_ser_calls; verif_stack g_ser_arg; size_t g_ser_result;
// construction of the commitment checker: arguments logged
class CScript;
struct TaprootCommitmentEnv { int dummy; };
extern int g_tce_calls; extern verif_bytes g_tce_control, g_tce_program; extern verif_scriptbytes g_tce_script; extern uint256* g_tce_out; extern TaprootCommitmentEnv g_tce_obj;
inline TaprootCommitmentEnv* verif_new_tce(const verif_bytes& control, const verif_bytes& program, const verif_scriptbytes& script, uint256* out) {
    g_tce_calls = g_tce_calls + 1; g_tce_control = control; g_tce_program = program; g_tce_script = script; g_tce_out = out; return &g_tce_obj; }
int g_tce_calls; verif_bytes g_tce_control, g_tce_program; verif_scriptbytes g_tce_script; uint256* g_tce_out; TaprootCommitmentEnv g_tce_obj;
