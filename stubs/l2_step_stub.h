// l2_step_stub.h -- the L1 step replaced by its CONTRACT (proved in C01 / C02 / C17 for the real StepScript):
//   may modify exactly: main stack, alt stack, conditional state, op count, signed-code start, code-separator position,
//   signature budget, the decoded opcode / push value, *serror; advances pc by at least one byte and at most to pend
//   when an operation was decoded; may raise an interpreter exception (ghost flag verif_thrown, see R-EXC).
//   Frame: flags, sigversion, fRequireMinimal, allow_disabled_opcodes, opcode_pos, script bytes, pend, tapleaf hash unchanged.
#pragma once
int g_l1_calls; int g_tce_iter_calls; int g_tce_next_state; int g_tce_deleted;
// ghost: the state the most recent step left (to state that callers do not post-process it)
int g_l1_last_opcount; verif_stack g_l1_last_stack, g_l1_last_alt; size_t g_l1_last_cs_size; bool g_l1_last_cs_alltrue; int64_t g_l1_last_weight;
bool StepScript(ScriptExecutionEnvironment& env, CScript::const_iterator& pc, CScript* local_script) {
    g_l1_calls = g_l1_calls + 1;
    CScript::const_iterator lim = env.pend;
    if (local_script) lim = local_script->end();
    __CPROVER_assert(pc < lim, "contract: precondition of the step: an operation is left to decode (pc < end of the executing script)");
    { verif_stack s; __CPROVER_havoc_object(&s); __CPROVER_assume(s.n <= VERIF_STACK_W && s.base <= 1000000000UL); for (size_t i = 0; i < VERIF_STACK_W; ++i) __CPROVER_assume(s.w[i].n <= VERIF_ITEM_CAP); env.stack = s; }
    { verif_stack s; __CPROVER_havoc_object(&s); __CPROVER_assume(s.n <= VERIF_STACK_W && s.base <= 1000000000UL); for (size_t i = 0; i < VERIF_STACK_W; ++i) __CPROVER_assume(s.w[i].n <= VERIF_ITEM_CAP); env.altstack = s; }
    { ConditionStack c; __CPROVER_havoc_object(&c); __CPROVER_assume(c.size() <= 2000000000UL && (c.all_true() || (c.size() >= 1 && !c.at(c.size() - 1)))); env.vfExec = c; }
    env.nOpCount = nondet_int();
    env.execdata.m_codeseparator_pos = nondet_uint();
    env.execdata.m_validation_weight_left = nondet_long();
    env.opcode = (opcodetype)nondet_uint();
    if (env.serror) *env.serror = (ScriptError)nondet_int();
    size_t adv = nondet_size();
    __CPROVER_assume(adv >= 1 && adv <= (size_t)(lim - pc));
    pc += adv;
    if (nondet_bool()) env.pbegincodehash = pc;
    g_l1_last_opcount = env.nOpCount; g_l1_last_stack = env.stack; g_l1_last_alt = env.altstack; g_l1_last_cs_size = env.vfExec.size(); g_l1_last_cs_alltrue = env.vfExec.all_true(); g_l1_last_weight = env.execdata.m_validation_weight_left;
    if (nondet_bool()) { verif_thrown = 1 + (int)(nondet_uint() % 3u); return false; }
    return nondet_bool();
}
