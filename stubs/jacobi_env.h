// jacobi_env.h -- environment of the argument handling of Value::do_jacobi_symbol: extract_values as an oracle, uint256 with the size
// assertion of base_blob, arith_uint256 by "is zero" only, with the division-by-zero exception of the real operator% as an obligation.
#pragma once
struct verif_FILE; verif_FILE* stderr; int fprintf(verif_FILE* f, const char* fmt...) { return 0; } int fputc(int c, verif_FILE* f) { return c; }
class uint256 { public: bool zero;
    uint256() : zero(true) {}
    explicit uint256(const verif_bytes& v) : zero(true) { __CPROVER_assert(v.size() == 32, "assert() in btcdeb code: vch.size() == sizeof(m_data) [uint256(const std::vector<unsigned char>&)]"); for (size_t i = 0; i < 32; ++i) if (i < v.n && v.s.a[i] != 0) zero = false; } };
class arith_uint256 { public: bool zero;
    arith_uint256() : zero(true) {} arith_uint256(int v) : zero(v == 0) {}
    unsigned int bits() const { return zero ? 0u : 1u; }      // (position of the highest set bit: only zero / non-zero matters here)
    arith_uint256 operator%(const arith_uint256& k) const { __CPROVER_assert(!k.zero, "uint_error(\"Division by zero\") raised by arith_uint256::operator% (uncaught: the program aborts)"); arith_uint256 r; r.zero = nondet_bool(); return r; } };
inline arith_uint256 UintToArith256(const uint256& u) { arith_uint256 a; a.zero = u.zero; return a; }
extern uint256 SECP256K1_FIELD_SIZE;
extern bool g_extract_ok; extern verif_stack g_extract_vals; extern int g_jacobi_head_done;
struct Value { enum { T_STRING, T_INT, T_DATA, T_OPCODE }; int type; verif_bytes data;
    bool extract_values(verif_stack& values) { values = g_extract_vals; return g_extract_ok; }
    void jacobi_head(); };
uint256 SECP256K1_FIELD_SIZE; bool g_extract_ok; verif_stack g_extract_vals; int g_jacobi_head_done; int verif_expect_throw; int verif_thrown;
