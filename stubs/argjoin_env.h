// argjoin_env.h -- environment of Value::parse_args(const std::vector<const char*>): std::string as a bounded character array with
// the operations the function uses, the argument vector as an array of C strings, the result list as a ghost log of the strings
// (and explicit lengths) the values are constructed from.
#pragma once
#ifndef VERIF_ARG_N
#define VERIF_ARG_N 4
#endif
#ifndef VERIF_ARG_LEN
#define VERIF_ARG_LEN 3
#endif
#define VERIF_JOIN_CAP (VERIF_ARG_N * (VERIF_ARG_LEN + 1) + 2)
inline size_t verif_strlen(const char* s) { size_t n = 0; for (size_t i = 0; i < VERIF_JOIN_CAP; ++i) { if (s[i] == 0) break; n = i + 1; } return n; }
namespace std { class verif_jstr { public: char c[VERIF_JOIN_CAP + 1]; size_t n;
    verif_jstr() : n(0) { c[0] = 0; }
    verif_jstr(const char* s) : n(0) { set(s); }
    verif_jstr(const verif_jstr& o) : n(o.n) { for (size_t i = 0; i <= VERIF_JOIN_CAP; ++i) c[i] = o.c[i]; }
    void set(const char* s) { n = 0; for (size_t i = 0; i < VERIF_JOIN_CAP; ++i) { if (s[i] == 0) break; c[i] = s[i]; n = i + 1; } c[n] = 0; }
    verif_jstr& operator=(const verif_jstr& o) { n = o.n; for (size_t i = 0; i <= VERIF_JOIN_CAP; ++i) c[i] = o.c[i]; return *this; }
    verif_jstr& operator=(const char* s) { set(s); return *this; }
    bool operator!=(const char* s) const { size_t m = verif_strlen(s); if (m != n) return true; for (size_t i = 0; i < VERIF_JOIN_CAP; ++i) if (i < n && c[i] != s[i]) return true; return false; }
    verif_jstr& operator+=(const verif_jstr& o) { VERIF_LIMIT(n + o.n <= VERIF_JOIN_CAP, "joined string capacity"); for (size_t i = 0; i < VERIF_JOIN_CAP; ++i) if (i < o.n) c[n + i] = o.c[i]; n = n + o.n; c[n] = 0; return *this; }
    verif_jstr operator+(const char* s) const { verif_jstr r(*this); verif_jstr t(s); r += t; return r; }
    const char* c_str() const { return c; } size_t length() const { return n; } }; }
#define string verif_jstr
struct verif_argvec { const char* a[VERIF_ARG_N]; size_t n; size_t size() const { return n; } const char* operator[](size_t i) const { __CPROVER_assert(i < n, "std::vector precondition: operator[] index in range"); return a[i < VERIF_ARG_N ? i : 0]; } };
// the list of values: which string (and which explicit length, 0 = the whole string) each value is constructed from
struct verif_vallist { std::verif_jstr s[VERIF_ARG_N + 1]; size_t len[VERIF_ARG_N + 1]; size_t n; verif_vallist() : n(0) {}
    verif_vallist(const verif_vallist& o) : n(o.n) { for (size_t i = 0; i <= VERIF_ARG_N; ++i) { s[i] = o.s[i]; len[i] = o.len[i]; } }
    void emplace_back(const char* v, size_t l = 0) { VERIF_LIMIT(n <= VERIF_ARG_N, "value list capacity"); s[n] = v; len[n] = l; n = n + 1; } };
int verif_expect_throw; int verif_thrown;
