// step_env_sig.h -- environment of the signature-opcode queries (C02 / C11): the REAL EvalChecksig*, CheckSignatureEncoding,
// CheckPubKeyEncoding, IsValidSignatureEncoding ... are in the unit; oracles: ECDSA / Schnorr verification (checker), low-S test,
// FindAndDelete (its effect on the scriptCode handed to the oracle is not observable here: only the count it returns).
#pragma once
extern bool g_lows_ok; extern int g_lows_calls;
bool CPubKey::CheckLowS(const verif_bytes& vchSig) { g_lows_calls = g_lows_calls + 1; return g_lows_ok; }
bool g_lows_ok; int g_lows_calls;
extern int g_fad_calls; extern int g_fad_result[VERIF_ORACLE_N];
int FindAndDelete(CScript& script, const CScript& b) { int k = g_fad_calls; VERIF_LIMIT(k < VERIF_ORACLE_N, "FindAndDelete oracle call log capacity"); g_fad_calls = k + 1; return g_fad_result[k]; }
int g_fad_calls; int g_fad_result[VERIF_ORACLE_N];
CScript& CScript::operator<<(const verif_bytes& b) { return *this; }   // only builds the argument of FindAndDelete
// --pretend-valid tables with (at most) one listed pair S0:P0
extern bool g_mock_on; extern verif_bytes g_mock_sig, g_mock_key;
size_t verif_bytes_map::size() const { return g_mock_on ? 1 : 0; }
size_t verif_bytes_map::count(const verif_bytes& k) const { return (g_mock_on && k == g_mock_sig) ? 1 : 0; }
const verif_bytes& verif_bytes_map::at(const verif_bytes& k) const { if (!(g_mock_on && k == g_mock_sig)) VERIF_THROW(VT_OUT_OF_RANGE); return g_mock_key; }
size_t verif_bytes_set::size() const { return g_mock_on ? 1 : 0; }
size_t verif_bytes_set::count(const verif_bytes& k) const { return (g_mock_on && k == g_mock_key) ? 1 : 0; }
bool g_mock_on; verif_bytes g_mock_sig, g_mock_key;
