// hashtype_env.h -- environment of hashtype_str: snprintf of a plain text (no conversions) as a bounded copy, std::string as a bounded
// array constructed from a C string by scanning to the NUL (at most VERIF_HT_CAP bytes: a scan that does not end inside the 100-byte
// buffer is an obligation).
#pragma once
#define VERIF_HT_CAP 100
inline int snprintf(char* dst, size_t n, const char* text) {
    size_t k = 0, len = 0;
    for (size_t i = 0; i < 40; ++i) { if (text[i] == 0) break; len = i + 1; if (i + 1 < n) { dst[i] = text[i]; k = i + 1; } }
    if (n > 0) dst[k] = 0;
    return (int)len;
}
namespace std { class verif_hstr { public: char c[VERIF_HT_CAP + 1]; size_t n; bool terminated;
    verif_hstr() : n(0), terminated(true) { c[0] = 0; }
    verif_hstr(const char* s) : n(0), terminated(false) { for (size_t i = 0; i < VERIF_HT_CAP - 1; ++i) { if (s[i] == 0) { terminated = true; break; } c[i] = s[i]; n = i + 1; } c[n] = 0;
        __CPROVER_assert(terminated, "string construction: the scan for the terminating NUL ends inside the 100-byte buffer"); }
    verif_hstr(const verif_hstr& o) : n(o.n), terminated(o.terminated) { for (size_t i = 0; i <= VERIF_HT_CAP; ++i) c[i] = o.c[i]; }
    verif_hstr& operator=(const verif_hstr& o) { n = o.n; terminated = o.terminated; for (size_t i = 0; i <= VERIF_HT_CAP; ++i) c[i] = o.c[i]; return *this; } }; }
#define string verif_hstr
int verif_expect_throw; int verif_thrown;
