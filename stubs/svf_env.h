// svf_env.h -- stub environment for the flag-table unit: a minimal std::string with value semantics (bounded length),
// fprintf as no-op, exit() as an expectation check (same scheme as exceptions).
#pragma once
#ifndef VERIF_STR_CAP
#define VERIF_STR_CAP 48
#endif
namespace std {
class verif_str {
public:
    char c[VERIF_STR_CAP]; size_t n;
    verif_str() : n(0) { c[0] = 0; }
    verif_str(const char* s) : n(0) { for (size_t i = 0; i < VERIF_STR_CAP - 1; ++i) { if (s[i] == 0) break; c[i] = s[i]; n = i + 1; } VERIF_LIMIT(s[n] == 0, "string longer than the modelled capacity"); c[n] = 0; }
    verif_str(const verif_str& o) : n(o.n) { for (size_t i = 0; i < VERIF_STR_CAP; ++i) c[i] = o.c[i]; }
    verif_str& operator=(const verif_str& o) { n = o.n; for (size_t i = 0; i < VERIF_STR_CAP; ++i) c[i] = o.c[i]; return *this; }
    bool operator==(const verif_str& o) const { if (n != o.n) return false; for (size_t i = 0; i < VERIF_STR_CAP; ++i) if (i < n && c[i] != o.c[i]) return false; return true; }
    const char* c_str() const { return c; }
    const char* data() const { return c; }
    size_t length() const { return n; }
    bool operator==(const char* o) const { return *this == verif_str(o); }
    size_t size() const { return n; }
};
}
#define string verif_str
struct verif_FILE; verif_FILE* stderr;
int fprintf(verif_FILE* f, const char* fmt...) { return 0; }
extern int verif_expect_exit;
#define VERIF_EXIT(code) do { __CPROVER_assert(verif_expect_exit == 1, "exit(1) reached only for a malformed or unknown flag list"); __CPROVER_assume(0); } while (0)
