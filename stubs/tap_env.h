// tap_env.h -- stub environment of the taproot-commitment unit (C05): uint256, XOnlyPubKey (CheckTapTweak = oracle),
// HashWriter (tagged SHA-256 = uninterpreted function: ghost log of the written bytes, harness-chosen digest), Span.
#pragma once
#ifndef VERIF_HASHLOG_CAP
#define VERIF_HASHLOG_CAP 72
#endif
typedef void (*btc_logf_t)(const char* fmt...);
void btc_logf_dummy(const char* fmt...) {}
btc_logf_t btc_logf = btc_logf_dummy, btc_taproot_logf = btc_logf_dummy;
typedef verif_bytes valtype;
class CScript : public verif_scriptbytes { public: typedef const unsigned char* const_iterator; CScript() {} };
class verif_span { public: const unsigned char* p; size_t n;
    verif_span(const unsigned char* p_, size_t n_) : p(p_), n(n_) {}
    const unsigned char* begin() const { return p; } const unsigned char* end() const { return p + n; } size_t size() const { return n; } const unsigned char* data() const { return p; }
    const unsigned char& operator[](size_t i) const { __CPROVER_assert(i < n, "Span precondition: index in range"); return p[i]; } };
inline std::string HexStr(const verif_bytes& v) { return std::string(); }
inline std::string HexStr(const verif_scriptbytes& v) { return std::string(); }
// hex listing of a span: the text is not modelled, WHICH bytes are listed is (ghost log of pointer and length per call)
#define VERIF_HEXLOG_CAP 20
extern int g_hex_calls; extern const unsigned char* g_hex_ptr[VERIF_HEXLOG_CAP]; extern size_t g_hex_len[VERIF_HEXLOG_CAP];
inline std::string HexStr(const verif_span& v) { int k = g_hex_calls; if (k < VERIF_HEXLOG_CAP) { g_hex_ptr[k] = v.p; g_hex_len[k] = v.n; } g_hex_calls = k + 1; return std::string(); }
inline std::string strprintf(const char* fmt...) { return std::string(); }
class uint256 { public: unsigned char m_data[32];
    uint256() { for (int i = 0; i < 32; ++i) m_data[i] = 0; }
    uint256(const uint256& o) { for (int i = 0; i < 32; ++i) m_data[i] = o.m_data[i]; }
    uint256& operator=(const uint256& o) { for (int i = 0; i < 32; ++i) m_data[i] = o.m_data[i]; return *this; }
    explicit uint256(const verif_bytes& vch) { __CPROVER_assert(vch.size() == 32, "assert() in btcdeb code: vch.size() == sizeof(m_data) [uint256(const std::vector<unsigned char>&)]"); for (size_t i = 0; i < 32; ++i) m_data[i] = i < vch.n ? vch.s.a[i] : 0; }
    unsigned char* begin() { return m_data; } unsigned char* end() { return m_data + 32; }
    const unsigned char* begin() const { return m_data; } const unsigned char* end() const { return m_data + 32; }
    std::string ToString() const { return std::string(); }
    bool operator==(const uint256& o) const { for (int i = 0; i < 32; ++i) if (m_data[i] != o.m_data[i]) return false; return true; } };
// CheckTapTweak oracle: arbitrary answer, arguments recorded
extern bool g_tweak_ok; extern int g_tweak_calls; extern uint256 g_tweak_q, g_tweak_p, g_tweak_root; extern bool g_tweak_parity;
class XOnlyPubKey { public: uint256 m_keydata;
    XOnlyPubKey() {}
    explicit XOnlyPubKey(const uint256& v) : m_keydata(v) {}
    bool CheckTapTweak(const XOnlyPubKey& internal, const uint256& merkle_root, bool parity) const {
        g_tweak_calls = g_tweak_calls + 1; g_tweak_q = m_keydata; g_tweak_p = internal.m_keydata; g_tweak_root = merkle_root; g_tweak_parity = parity; return g_tweak_ok; }
    std::string ToString() const { return std::string(); } };
// std::vector<std::string> used only to collect listing lines: modelled by its length
class verif_strvec { public: size_t n; verif_strvec() : n(0) {} void push_back(const std::string& s) { n = n + 1; } size_t size() const { return n; } };
enum { VTAG_NONE = 0, VTAG_TAPLEAF = 1, VTAG_TAPBRANCH = 2, VTAG_TAPTWEAK = 3, VTAG_TAPSIGHASH = 4 };
struct verif_hashlog { int tag; unsigned char b[VERIF_HASHLOG_CAP]; size_t n; };
extern verif_hashlog g_hlog[2]; extern int g_hcalls; extern unsigned char g_hout[2][32];
class HashWriter { public: int tag; unsigned char b[VERIF_HASHLOG_CAP]; size_t n;
    HashWriter() : tag(0), n(0) {}
    explicit HashWriter(int t) : tag(t), n(0) {}
    HashWriter(const HashWriter& o) : tag(o.tag), n(o.n) { for (size_t i = 0; i < VERIF_HASHLOG_CAP; ++i) b[i] = o.b[i]; }
    HashWriter& operator=(const HashWriter& o) { tag = o.tag; n = o.n; for (size_t i = 0; i < VERIF_HASHLOG_CAP; ++i) b[i] = o.b[i]; return *this; }
    void put(unsigned char c) { VERIF_LIMIT(n < VERIF_HASHLOG_CAP, "hash input log capacity"); b[n] = c; n = n + 1; }
    HashWriter& operator<<(uint8_t v) { put(v); return *this; }
    // serialization of a script: compact size of the length, then the bytes (serialize.h; lengths < 253 are one byte)
    HashWriter& operator<<(const CScript& s) { VERIF_LIMIT(s.n < 253, "script length in the one-byte compact-size range"); put((unsigned char)s.n); for (size_t i = 0; i < VERIF_SCRIPT_CAP; ++i) if (i < s.n) put(s.s.a[i]); return *this; }
    HashWriter& operator<<(const uint256& v) { for (int i = 0; i < 32; ++i) put(v.m_data[i]); return *this; }
    HashWriter& operator<<(const verif_span& v) { for (size_t i = 0; i < 32; ++i) if (i < v.n) put(v.p[i]); VERIF_LIMIT(v.n <= 32, "span of at most 32 bytes"); return *this; }
    uint256 GetSHA256() { int k = g_hcalls; VERIF_LIMIT(k < 2, "hash oracle call log capacity"); g_hlog[k].tag = tag; g_hlog[k].n = n; for (size_t i = 0; i < VERIF_HASHLOG_CAP; ++i) g_hlog[k].b[i] = b[i];
        g_hcalls = k + 1; uint256 r; for (int i = 0; i < 32; ++i) r.m_data[i] = g_hout[k][i]; return r; } };
const HashWriter HASHER_TAPLEAF = HashWriter((int)VTAG_TAPLEAF); const HashWriter HASHER_TAPBRANCH = HashWriter((int)VTAG_TAPBRANCH); const HashWriter HASHER_TAPSIGHASH = HashWriter((int)VTAG_TAPSIGHASH);
int g_hex_calls; const unsigned char* g_hex_ptr[VERIF_HEXLOG_CAP]; size_t g_hex_len[VERIF_HEXLOG_CAP];
bool g_tweak_ok; int g_tweak_calls; uint256 g_tweak_q, g_tweak_p, g_tweak_root; bool g_tweak_parity;
verif_hashlog g_hlog[2]; int g_hcalls; unsigned char g_hout[2][32];
int verif_expect_throw; int verif_thrown;
