// ppv_env.h -- environment of Instance::parse_pretend_valid_expr (C11): strndup/free on a ghost buffer, Value(expr).data_value()
// as an oracle mapping the i-th expression to the i-th ghost byte string (the expression text is ghost-logged), the pair
// tables as ghost logs of insertions.
#pragma once
#ifndef VERIF_STR_CAP
#define VERIF_STR_CAP 24
#endif
typedef verif_bytes valtype;
class uint160 { public: unsigned char d[20]; };
extern char g_dup[VERIF_STR_CAP]; extern int g_dup_live;
inline char* strndup(const char* s, size_t n) { VERIF_LIMIT(n < VERIF_STR_CAP, "strndup capacity"); for (size_t i = 0; i < VERIF_STR_CAP - 1; ++i) { if (i >= n || s[i] == 0) { g_dup[i] = 0; break; } g_dup[i] = s[i]; } g_dup[VERIF_STR_CAP - 1] = 0; g_dup_live = g_dup_live + 1; return g_dup; }
inline void free(void* p) { __CPROVER_assert(p == (void*)g_dup && g_dup_live == 1, "free() of exactly the buffer strndup returned, once"); g_dup_live = g_dup_live - 1; }
extern int g_val_calls; extern char g_val_text[4][VERIF_STR_CAP]; extern verif_bytes g_val_bytes[4];
struct Value { int k; Value(const char* s) { k = g_val_calls; VERIF_LIMIT(k < 4, "expression log capacity"); for (size_t i = 0; i < VERIF_STR_CAP; ++i) { g_val_text[k][i] = s[i]; if (s[i] == 0) break; } g_val_calls = k + 1; }
    Value(const Value& o) : k(o.k) {} verif_bytes data_value() const { return g_val_bytes[k < 4 ? k : 0]; } };
extern int g_map_sets; extern verif_bytes g_map_key[3], g_map_val[3]; extern int g_set_ins; extern verif_bytes g_set_key[3];
struct verif_map_slot { int k; verif_map_slot& operator=(const verif_bytes& v) { g_map_val[k < 3 ? k : 0] = v; return *this; } };
class verif_bytes_map { public: int dummy; verif_map_slot operator[](const verif_bytes& key) { int k = g_map_sets; VERIF_LIMIT(k < 3, "pair log capacity"); g_map_key[k] = key; g_map_sets = k + 1; verif_map_slot s; s.k = k; return s; } };
class verif_bytes_set { public: int dummy; void insert(const verif_bytes& key) { int k = g_set_ins; VERIF_LIMIT(k < 3, "pair log capacity"); g_set_key[k] = key; g_set_ins = k + 1; } };
struct verif_FILE; verif_FILE* stderr; int fprintf(verif_FILE* f, const char* fmt...) { return 0; }
class Instance { public: verif_bytes_map pretend_valid_map; verif_bytes_set pretend_valid_pubkeys; bool parse_pretend_valid_expr(const char* expr); };
char g_dup[VERIF_STR_CAP]; int g_dup_live; int g_val_calls; char g_val_text[4][VERIF_STR_CAP]; verif_bytes g_val_bytes[4];
int g_map_sets; verif_bytes g_map_key[3], g_map_val[3]; int g_set_ins; verif_bytes g_set_key[3]; int verif_expect_throw; int verif_thrown;
