// evalparse_env.h -- environment of exec's token parser (Instance::eval, first half): GetOpCode as an oracle, logging off
#pragma once
typedef void (*btc_logf_t)(const char* fmt...);
void btc_logf_dummy(const char* fmt...) {}
btc_logf_t btc_logf = btc_logf_dummy;
static bool VALUE_WARN = true;
struct verif_FILE; verif_FILE* stderr; int fprintf(verif_FILE* f, const char* fmt...) { return 0; }
namespace std { class verif_cstr { public: const char* p; verif_cstr() : p("") {} verif_cstr(const char* s) : p(s) {} const char* c_str() const { return p; } }; }
#define string verif_cstr
extern int g_getopcode_calls; extern opcodetype g_getopcode_result;
inline opcodetype GetOpCode(const char* name) { g_getopcode_calls = g_getopcode_calls + 1; return g_getopcode_result; }
int g_getopcode_calls; opcodetype g_getopcode_result;
CScript* g_parsed_script;
