// enc_env.h -- stub environment of the script-assembly unit (C07): CScript as a byte vector with the insert() forms the
// real operator<< members use; WriteLE16/32 on a little-endian target (assumed: x86-64); std::string reduced to length 0.
#pragma once
#define LIFETIMEBOUND
inline void WriteLE16(unsigned char* ptr, uint16_t x) { ptr[0] = (unsigned char)(x & 0xff); ptr[1] = (unsigned char)(x >> 8); }
inline void WriteLE32(unsigned char* ptr, uint32_t x) { ptr[0] = (unsigned char)(x & 0xff); ptr[1] = (unsigned char)((x >> 8) & 0xff); ptr[2] = (unsigned char)((x >> 16) & 0xff); ptr[3] = (unsigned char)(x >> 24); }
class CScriptBaseStub : public verif_scriptbytes {
public:
    // prevector::insert(pos, value) and insert(pos, first, last), used at end() only by the sliced code
#ifdef H_ENC_LENGTH_ONLY
    // prefix/length query (storage is large enough for every pointer to stay in bounds; no loop runs over the capacity):
    // a payload longer than 8 bytes is accounted for by LENGTH only, the push prefix written before it is modelled exactly
    void insert(unsigned char* p, const unsigned char& v) { unsigned char c = v; __CPROVER_assert(p == s.a + n, "std::vector precondition: insert position valid"); VERIF_LIMIT(n < VERIF_SCRIPT_CAP, "byte vector storage capacity"); s.a[n] = c; n = n + 1; }
    void insert(unsigned char* p, int v) { unsigned char c = (unsigned char)v; insert(p, c); }
    void insert(unsigned char* p, const unsigned char* b, const unsigned char* e) {
        size_t k = (size_t)(e - b);
        __CPROVER_assert(p == s.a + n, "std::vector precondition: insert position valid");
        VERIF_LIMIT(n + k <= VERIF_SCRIPT_CAP, "byte vector storage capacity");
        if (k <= 8) { for (size_t i = 0; i < 8; ++i) if (i < k) s.a[n + i] = b[i]; }
        n = n + k;
    }
#else
    void insert(unsigned char* p, const unsigned char& v) { verif_scriptbytes::insert(p, v); }
    void insert(unsigned char* p, int v) { unsigned char c = (unsigned char)v; verif_scriptbytes::insert(p, c); }
    void insert(unsigned char* p, const unsigned char* b, const unsigned char* e) { verif_scriptbytes::insert(p, b, e); }
#endif
};
int verif_expect_throw; int verif_thrown;
