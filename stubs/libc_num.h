// libc_num.h -- ASSUMED models of the libc number/string conversions the token parsers use (C11 7.22.1.2 atoi / strtol for
// base 10, 7.21.6.5 snprintf with "%d" / "%ld"), for strings of at most VERIF_TOKEN_CAP characters.  Listed as assumptions.
#pragma once
#ifndef VERIF_TOKEN_CAP
#define VERIF_TOKEN_CAP 6
#endif
inline bool verif_isspace(char c) { return c == ' ' || c == '\f' || c == '\n' || c == '\r' || c == '\t' || c == '\v'; }
inline long verif_strtol10(const char* s, const char** end) {
    size_t i = 0;
    for (size_t k = 0; k < VERIF_TOKEN_CAP; ++k) { if (!verif_isspace(s[i])) break; i = i + 1; }
    bool neg = false; if (s[i] == '-') { neg = true; i = i + 1; } else if (s[i] == '+') { i = i + 1; }
    long v = 0; bool any = false;
    for (size_t k = 0; k < VERIF_TOKEN_CAP + 1; ++k) { if (!(s[i] >= '0' && s[i] <= '9')) break; v = v * 10 + (s[i] - '0'); any = true; i = i + 1; }
    // (if/else, not ?: -- CBMC's C++ front end gives a conditional expression the type of its LAST operand)
    if (end) { if (any) *end = s + i; else *end = s; }
    if (!any) return 0;
    if (neg) return -v;
    return v;
}
inline int atoi(const char* s) { return (int)verif_strtol10(s, 0); }
inline long long atoll(const char* s) { return verif_strtol10(s, 0); }
inline long strtol(const char* s, char** end, int base) { __CPROVER_assert(base == 10, "verif-limit: strtol modelled for base 10"); const char* e = 0; long v = verif_strtol10(s, &e); if (end) *end = (char*)e; return v; }
// snprintf(buf, size, "%d"/"%ld", n): decimal digits, '-' for negatives, truncated to size-1 characters, always NUL-terminated
inline int verif_snprintf_d(char* buf, size_t size, long n) {
    char tmp[24]; int len = 0; bool neg = n < 0; unsigned long a = (unsigned long)n; if (neg) a = (unsigned long)0 - (unsigned long)n;
    char rev[24]; int r = 0;   // digits, least significant first
    for (int k = 0; k < 20; ++k) { rev[r] = (char)('0' + (a % 10)); r = r + 1; a = a / 10; if (a == 0) break; }
    if (neg) { tmp[len] = '-'; len = len + 1; }
    for (int k = 0; k < 20; ++k) { if (k >= r) break; tmp[len] = rev[r - 1 - k]; len = len + 1; }
    for (int k = 0; k < 22; ++k) { if (k >= len || (size_t)k + 1 >= size) break; buf[k] = tmp[k]; }
    if (size > 0) { size_t z = size - 1; if ((size_t)len < size) z = (size_t)len; buf[z] = 0; }
    return len;
}
