// include-template: byte vector class VB_NAME with storage struct VB_ARR of capacity VB_CAP (model of std::vector<unsigned char>)
struct VB_ARR { unsigned char a[VB_CAP]; };
class VB_NAME {
public:
    VB_ARR s; size_t n;
    typedef unsigned char* iterator; typedef const unsigned char* const_iterator;
    typedef unsigned char value_type;
    VB_NAME() : n(0) {}
    VB_NAME(const VB_NAME& o) : s(o.s), n(o.n) {}
    VB_NAME& operator=(const VB_NAME& o) { s = o.s; n = o.n; return *this; }
    explicit VB_NAME(size_t k) : n(0) { VERIF_LIMIT(k <= VB_CAP, "byte vector storage capacity"); for (size_t i = 0; i < VB_CAP; ++i) if (i < k) s.a[i] = 0; n = k; }
    VB_NAME(size_t k, const unsigned char& v) : n(0) { VERIF_LIMIT(k <= VB_CAP, "byte vector storage capacity"); for (size_t i = 0; i < VB_CAP; ++i) if (i < k) s.a[i] = v; n = k; }
    VB_NAME(const unsigned char* b, const unsigned char* e) : n(0) { size_t k = e - b; VERIF_LIMIT(k <= VB_CAP, "byte vector storage capacity"); for (size_t i = 0; i < VB_CAP; ++i) if (i < k) s.a[i] = b[i]; n = k; }
    size_t size() const { return n; }
    bool empty() const { return n == 0; }
    unsigned char* data() { return s.a; }
    const unsigned char* data() const { return s.a; }
    unsigned char* begin() { return s.a; }
    const unsigned char* begin() const { return s.a; }
    unsigned char* end() { return s.a + n; }
    const unsigned char* end() const { return s.a + n; }
    unsigned char& operator[](size_t i) { __CPROVER_assert(i < n, "std::vector precondition: operator[] index in range"); return s.a[i]; }
    const unsigned char& operator[](size_t i) const { __CPROVER_assert(i < n, "std::vector precondition: operator[] index in range"); return s.a[i]; }
    unsigned char& at(size_t i) { if (i >= n) VERIF_THROW(VT_OUT_OF_RANGE); return s.a[i]; }
    const unsigned char& at(size_t i) const { if (i >= n) VERIF_THROW(VT_OUT_OF_RANGE); return s.a[i]; }
    unsigned char& back() { __CPROVER_assert(n > 0, "std::vector precondition: back() on non-empty vector"); return s.a[n - 1]; }
    const unsigned char& back() const { __CPROVER_assert(n > 0, "std::vector precondition: back() on non-empty vector"); return s.a[n - 1]; }
    unsigned char& front() { __CPROVER_assert(n > 0, "std::vector precondition: front() on non-empty vector"); return s.a[0]; }
    void push_back(const unsigned char& v) { unsigned char t = v; VERIF_LIMIT(n < VB_CAP, "byte vector storage capacity"); s.a[n] = t; n = n + 1; }
    void pop_back() { __CPROVER_assert(n > 0, "std::vector precondition: pop_back() on non-empty vector"); n = n - 1; }
    void clear() { n = 0; }
    void resize(size_t k) { VERIF_LIMIT(k <= VB_CAP, "byte vector storage capacity"); for (size_t i = 0; i < VB_CAP; ++i) if (i >= n && i < k) s.a[i] = 0; n = k; }
    void assign(const unsigned char* b, const unsigned char* e) { size_t k = e - b; VERIF_LIMIT(k <= VB_CAP, "byte vector storage capacity"); for (size_t i = 0; i < VB_CAP; ++i) if (i < k) s.a[i] = b[i]; n = k; }
    // insert(end(), b, e) and general position insert
    void insert(unsigned char* p, const unsigned char* b, const unsigned char* e) {
        size_t pos = p - s.a; size_t k = e - b;
        __CPROVER_assert(pos <= n, "std::vector precondition: insert position valid");
        VERIF_LIMIT(pos == n, "range insert modelled at end() only");
        VERIF_LIMIT(n + k <= VB_CAP && k <= VB_CAP, "byte vector storage capacity");
        for (size_t i = 0; i < VB_CAP; ++i) if (i < k && n + i < VB_CAP) s.a[n + i] = b[i];
        n = n + k;
    }
    unsigned char* insert(unsigned char* p, const unsigned char& v) {
        size_t pos = p - s.a; unsigned char t = v;
        __CPROVER_assert(pos <= n, "std::vector precondition: insert position valid");
        VERIF_LIMIT(pos == n, "single insert modelled at end() only");
        VERIF_LIMIT(n < VB_CAP, "byte vector storage capacity");
        s.a[n] = t; n = n + 1; return p;
    }
    unsigned char* erase(unsigned char* b, unsigned char* e) {
        size_t pb = b - s.a; size_t pe = e - s.a;
        __CPROVER_assert(pb <= pe && pe <= n, "std::vector precondition: erase range valid");
        size_t k = pe - pb;
        for (size_t i = 0; i < VB_CAP; ++i) if (i >= pb && i + k < n) s.a[i] = s.a[i + k];
        n = n - k; return b;
    }
    unsigned char* erase(unsigned char* p) {
        size_t pos = p - s.a;
        __CPROVER_assert(pos < n, "std::vector precondition: erase position valid");
        for (size_t i = 0; i + 1 < VB_CAP; ++i) if (i >= pos && i + 1 < n) s.a[i] = s.a[i + 1];
        n = n - 1; return p;
    }
    bool operator==(const VB_NAME& o) const { if (n != o.n) return false; for (size_t i = 0; i < VB_CAP; ++i) if (i < n && s.a[i] != o.s.a[i]) return false; return true; }
    bool operator!=(const VB_NAME& o) const { return !(*this == o); }
};

