// decode_env_script.h -- CScript as a byte vector with pointer iterators; GetOp delegates to the real GetScriptOp as in script.h
#pragma once
bool GetScriptOp(const unsigned char*& pc, const unsigned char* end, opcodetype& opcodeRet, verif_bytes* pvchRet);
class CScript : public verif_scriptbytes {
public:
    typedef const unsigned char* const_iterator;
    bool GetOp(const_iterator& pc, opcodetype& opcodeRet, verif_bytes& vchRet) const { return GetScriptOp(pc, end(), opcodeRet, &vchRet); }
    bool GetOp(const_iterator& pc, opcodetype& opcodeRet) const { return GetScriptOp(pc, end(), opcodeRet, 0); }
    bool HasValidOps() const;
    bool IsPayToScriptHash() const;
    bool IsPayToWitnessScriptHash() const;
    bool IsWitnessProgram(int& version, verif_bytes& program) const;
    static int DecodeOP_N(opcodetype opcode) { if (opcode == OP_0) return 0; __CPROVER_assert(opcode >= OP_1 && opcode <= OP_16, "assert() in btcdeb code: opcode >= OP_1 && opcode <= OP_16"); return (int)opcode - (int)(OP_1 - 1); }
};
