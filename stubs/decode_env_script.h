// decode_env_script.h -- CScript as a byte vector with pointer iterators; GetOp delegates to the real GetScriptOp as in script.h
#pragma once
bool GetScriptOp(const unsigned char*& pc, const unsigned char* end, opcodetype& opcodeRet, verif_bytes* pvchRet);
class CScript : public verif_scriptbytes {
public:
    typedef const unsigned char* const_iterator;
    bool GetOp(const_iterator& pc, opcodetype& opcodeRet, verif_bytes& vchRet) const { return GetScriptOp(pc, end(), opcodeRet, &vchRet); }
    bool GetOp(const_iterator& pc, opcodetype& opcodeRet) const { return GetScriptOp(pc, end(), opcodeRet, 0); }
    bool HasValidOps() const;
};
