// step_env_nosig.h -- queries over non-signature opcodes: the signature helpers are outside the unit
#pragma once
static bool EvalChecksig(ScriptExecutionEnvironment& env, const valtype& sig, const valtype& pubkey, CScript::const_iterator pbegincodehash, CScript::const_iterator pend, ScriptExecutionData& execdata, unsigned int flags, const BaseSignatureChecker& checker, SigVersion sigversion, ScriptError* serror, bool& success) { __CPROVER_assert(0, "verif-limit: EvalChecksig is outside this unit"); return false; }
bool CheckSignatureEncoding(const verif_bytes& vchSig, unsigned int flags, ScriptError* serror) { __CPROVER_assert(0, "verif-limit: CheckSignatureEncoding is outside this unit"); return false; }
static bool CheckPubKeyEncoding(const valtype& vchPubKey, unsigned int flags, const SigVersion& sigversion, ScriptError* serror) { __CPROVER_assert(0, "verif-limit: CheckPubKeyEncoding is outside this unit"); return false; }
int FindAndDelete(CScript& script, const CScript& b) { __CPROVER_assert(0, "verif-limit: FindAndDelete is outside this unit"); return 0; }
CScript& CScript::operator<<(const verif_bytes& b) { __CPROVER_assert(0, "verif-limit: CScript::operator<< is outside this unit"); return *this; }
size_t verif_bytes_map::size() const { return 0; } size_t verif_bytes_map::count(const verif_bytes&) const { return 0; }
size_t verif_bytes_set::size() const { return 0; } size_t verif_bytes_set::count(const verif_bytes&) const { return 0; }
verif_bytes g_dummy_bytes; const verif_bytes& verif_bytes_map::at(const verif_bytes&) const { return g_dummy_bytes; }
