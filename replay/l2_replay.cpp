// Native replay for the session-layer contract "a successful step followed by a rewind restores the complete execution
// state" against the REAL debugger code of /repo.  The verifier's counterexample fixes the script version and the flags; the
// scenario scripts below exercise every component of the state (stack, alt stack, conditional nesting, code separator, op
// count; tapscript signature budget).  For every prefix k of every scenario and r = 1..4: session A is stepped k-r times; session B is
// stepped k times and rewound r times; the complete observable state of A and B must be equal, the history vectors of B must
// have one common length, and continuing both sessions to the end must give the same outcome.
// exit 1 = the real code violates the contract (reproduced), exit 3 = not reproduced on these scenarios (inconclusive).
#include <script/interpreter.h>
#include <script/script.h>
#include <debugger/interpreter.h>
#include <cstdio>
#include <cstdlib>
#include <cstring>
#include <string>
typedef std::vector<unsigned char> B; typedef std::vector<B> S;
struct Obs { S stack, alt; size_t nest; bool exec; size_t pc_off, cs_off; int ops, seq; uint32_t pos, csp; int64_t weight; bool done; };
static Obs observe(InterpreterEnv& e) {
    Obs o; o.stack = e.stack; o.alt = e.altstack; o.nest = e.vfExec.size(); o.exec = e.vfExec.all_true(); o.pc_off = e.pc - e.script.begin(); o.cs_off = e.pbegincodehash - e.script.begin();
    o.ops = e.nOpCount; o.seq = e.curr_op_seq; o.pos = e.opcode_pos; o.csp = e.execdata.m_codeseparator_pos; o.weight = e.execdata.m_validation_weight_left; o.done = e.done; return o;
}
static int diff(const Obs& a, const Obs& b) {
    int d = 0;
#define CMP(f, name) if (!(a.f == b.f)) { printf("    differs: %s\n", name); ++d; }
    CMP(stack, "main stack") CMP(alt, "alt stack") CMP(nest, "conditional nesting depth") CMP(exec, "executing/skipping") CMP(pc_off, "script position") CMP(cs_off, "signed-code start")
    CMP(ops, "operation count") CMP(seq, "position marker") CMP(pos, "opcode position") CMP(csp, "code-separator position") CMP(weight, "signature budget") CMP(done, "finished flag")
    return d;
}
int main(int argc, char** argv) {
    unsigned int flags = 0; int sv = 0;
    for (int i = 1; i < argc; ++i) { if (!strncmp(argv[i], "flags=", 6)) flags = strtoul(argv[i] + 6, 0, 0); if (!strncmp(argv[i], "sv=", 3)) sv = atoi(argv[i] + 3); }
    SigVersion sigver = sv == 1 ? SigVersion::WITNESS_V0 : sv == 3 ? SigVersion::TAPSCRIPT : SigVersion::BASE;
    flags &= ~(unsigned)SCRIPT_VERIFY_CONST_SCRIPTCODE;   // the scenarios contain OP_CODESEPARATOR
    const B scen[3] = {
        // OP_1 OP_IF OP_2 OP_TOALTSTACK OP_CODESEPARATOR OP_3 OP_ELSE OP_4 OP_ENDIF OP_DUP OP_FROMALTSTACK OP_ADD
        {0x51, 0x63, 0x52, 0x6b, 0xab, 0x53, 0x67, 0x54, 0x68, 0x76, 0x6c, 0x93},
        // OP_0 OP_NOTIF OP_5 OP_ELSE OP_6 OP_ENDIF OP_NOP OP_NOP OP_DEPTH
        {0x00, 0x64, 0x55, 0x67, 0x56, 0x68, 0x61, 0x61, 0x74},
        // OP_2 OP_3 OP_SWAP OP_OVER OP_2DROP OP_CODESEPARATOR OP_SIZE
        {0x52, 0x53, 0x7c, 0x78, 0x6d, 0xab, 0x82},
    };
    int bad = 0;
    for (int s = 0; s < 3; ++s) {
        for (size_t k = 1; k <= scen[s].size(); ++k) for (size_t r = 1; r <= k && r <= 4; ++r) {
            BaseSignatureChecker chk; ScriptError ea, eb; S sa, sb; CScript scr(scen[s].begin(), scen[s].end());
            InterpreterEnv A(sa, scr, flags, chk, sigver, &ea), Bv(sb, scr, flags, chk, sigver, &eb);
            A.execdata.m_validation_weight_left = 1000; A.execdata.m_validation_weight_left_init = true; Bv.execdata = A.execdata;
            bool ok = true;
            try { for (size_t i = 0; i < k - r && ok; ++i) ok = StepScript(A); for (size_t i = 0; i < k && ok; ++i) ok = StepScript(Bv); } catch (...) { ok = false; }
            if (!ok) continue;    // a failing step is outside the contract
            bool refused = false;
            for (size_t i = 0; i < r; ++i) if (!RewindScript(Bv)) refused = true;
            if (refused) { printf("scenario %d after %zu steps: rewind refused\n", s, k); ++bad; continue; }
            Obs oa = observe(A), ob = observe(Bv);
            int d = diff(oa, ob);
            if (d) { printf("scenario %d: %zu steps vs %zu steps + %zu rewind(s): %d component(s) differ (flags 0x%x, version %d)\n", s, k - r, k, r, d, flags, sv); ++bad; continue; }
            const size_t h = Bv.stack_history.size();
            if (Bv.altstack_history.size() != h || Bv.pc_history.size() != h || Bv.nOpCount_history.size() != h || Bv.vfExec_history.size() != h || Bv.pbegincodehash_history.size() != h || Bv.execdata_history.size() != h || Bv.opcode_pos_history.size() != h) {
                printf("scenario %d: %zu steps + %zu rewind(s): the history vectors have different lengths\n", s, k, r); ++bad; continue;
            }
            // outcome of continuing to the end
            bool ra = false, rb = false;
            try { ra = ContinueScript(A); rb = ContinueScript(Bv); } catch (...) { continue; }
            if (ra != rb || diff(observe(A), observe(Bv))) { printf("scenario %d: continuing after %zu steps + %zu rewind(s) ends differently from a fresh session\n", s, k, r); ++bad; }
        }
    }
    printf(bad ? "REPRODUCED: steps followed by rewinds do not restore the state in %d case(s)\n" : "not reproduced on the scenario scripts (inconclusive: the scenarios are a fixed family)\n", bad);
    return bad ? 1 : 3;   // 3 = cannot rebuild / inconclusive: never counted as evidence that the real code is fine
}
