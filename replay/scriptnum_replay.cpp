// Native replay of CScriptNum counterexamples against the REAL header in /repo (no stubs).
// exit 1 = the real code violates the contract on this input; exit 0 = it does not.
#include <script/script.h>
#include <cstdio>
#include <cstdlib>
#include <cstring>
#include "spec_scriptnum.h"
static std::vector<unsigned char> unhex(const char* s) { std::vector<unsigned char> r; for (size_t i = 0; s[i] && s[i+1]; i += 2) { unsigned v; sscanf(s + i, "%2x", &v); r.push_back(v); } return r; }
int main(int argc, char** argv) {
    if (argc < 3) return 3;
    std::string mode = argv[1];
    if (mode == "serialize") {
        int64_t v = strtoll(argv[2], nullptr, 10);
        std::vector<unsigned char> r = CScriptNum::serialize(v);
        printf("serialize(%lld) = ", (long long)v); for (auto c : r) printf("%02x", c); printf("\n");
        bool ok = r.size() <= 9 && spec_num_minimal(r.data(), r.size());
        if (v != INT64_MIN) ok = ok && r.size() == spec_num_len(v) && spec_num_value(r.data(), r.size()) == v;
        if (!ok) { printf("REPRODUCED: not the minimal sign-magnitude encoding of the value\n"); return 1; }
        return 0;
    }
    if (mode == "decode" && argc >= 6) {
        std::vector<unsigned char> b = unhex(argv[2]); size_t len = strtoul(argv[3], 0, 10); int rm = atoi(argv[4]); size_t maxlen = strtoul(argv[5], 0, 10);
        b.resize(len);
        int kind = spec_num_decode_kind(b.data(), len, rm, maxlen); int got = 0; int64_t val = 0;
        try { CScriptNum n(b, rm != 0, maxlen); val = n.GetInt64(); }
        catch (const scriptnum_error& e) { got = strstr(e.what(), "overflow") ? SPEC_VT_SCRIPTNUM_OVERFLOW : SPEC_VT_SCRIPTNUM_NONMINIMAL; }
        printf("decode kind expected %d got %d value %lld expected %lld\n", kind, got, (long long)val, (long long)spec_num_value(b.data(), len));
        if (kind != got || (kind == 0 && val != spec_num_value(b.data(), len))) { printf("REPRODUCED\n"); return 1; }
        return 0;
    }
    if (mode == "getint") {
        int64_t v = strtoll(argv[2], nullptr, 10); int r = CScriptNum(v).getint();
        int e = v > 2147483647L ? 2147483647 : (v < -2147483647L - 1 ? -2147483647 - 1 : (int)v);
        printf("getint(%lld) = %d expected %d\n", (long long)v, r, e);
        return r == e ? 0 : 1;
    }
    if (mode == "roundtrip" && argc >= 4) {
        int64_t v = strtoll(argv[2], nullptr, 10); int rm = atoi(argv[3]);
        try { CScriptNum n(CScriptNum(v).getvch(), rm != 0, 8); printf("roundtrip(%lld) = %lld\n", (long long)v, (long long)n.GetInt64()); return n.GetInt64() == v ? 0 : 1; }
        catch (const std::exception& e) { printf("REPRODUCED: exception %s\n", e.what()); return 1; }
    }
    return 3;
}
