// Native replay of an L1 step counterexample against the REAL interpreter of /repo (no stubs): builds the concrete
// pre-state reported by CBMC, calls the real StepScript, evaluates the same executable specification natively on
// std::vector containers and compares.  exit 1 = the real code disagrees with the rules on this input (reproduced),
// exit 0 = it agrees, exit 3 = the input cannot be rebuilt natively.
#include <script/interpreter.h>
#include <script/script.h>
#include <script/script_error.h>
#include <debugger/interpreter.h>
#include <crypto/sha256.h>
#include <crypto/sha1.h>
#include <crypto/ripemd160.h>
#include <hash.h>
#include <cstdio>
#include <cstdlib>
#include <cstring>
#include <map>
#include <string>
#include <pubkey.h>
typedef std::vector<unsigned char> sbytes; typedef std::vector<sbytes> sstack;
#define SPEC_WITH_SIG
#define VERIF_ORACLE_N 24
#include "../harness/spec_step.h"

static std::map<std::string, std::string> A;
static std::string arg(const char* k, const char* d = "") { auto it = A.find(k); return it == A.end() ? d : it->second; }
static long long num(const char* k, long long d = 0) { auto it = A.find(k); return it == A.end() ? d : strtoll(it->second.c_str(), 0, 0); }
static sbytes unhex(const std::string& s) { sbytes r; for (size_t i = 0; i + 1 < s.size(); i += 2) { unsigned v = 0; sscanf(s.c_str() + i, "%2x", &v); r.push_back((unsigned char)v); } return r; }
static sstack items(const std::string& s) { sstack r; size_t p = 0; if (s.empty()) return r; while (true) { size_t c = s.find(',', p); std::string t = s.substr(p, c == std::string::npos ? std::string::npos : c - p); r.push_back(t == "-" ? sbytes() : unhex(t)); if (c == std::string::npos) break; p = c + 1; } return r; }
static void show(const char* n, const sstack& s) { printf("%s[%zu]:", n, s.size()); size_t from = s.size() > 8 ? s.size() - 8 : 0; for (size_t i = from; i < s.size(); ++i) { printf(" "); if (s[i].empty()) printf("-"); for (auto c : s[i]) printf("%02x", c); } printf("\n"); }

class OracleChecker : public BaseSignatureChecker {
public:
    bool lt, sq; mutable int lt_calls = 0, sq_calls = 0;
    // signature verdicts: the i-th ECDSA verification requested gets ecdsa[i]; Schnorr verification gets schnorr_ok / schnorr_err
    bool ecdsa[VERIF_ORACLE_N] = {false}; bool schnorr_ok = false; int schnorr_err = (int)SCRIPT_ERR_SCHNORR_SIG;
    mutable int ecdsa_calls = 0, schnorr_calls = 0; mutable sbytes esig[VERIF_ORACLE_N], ekey[VERIF_ORACLE_N], ssig, skey;
    OracleChecker(bool a, bool b) : lt(a), sq(b) {}
    bool CheckLockTime(const CScriptNum&) const override { ++lt_calls; return lt; }
    bool CheckSequence(const CScriptNum&) const override { ++sq_calls; return sq; }
    bool CheckECDSASignature(const std::vector<unsigned char>& sig, const std::vector<unsigned char>& key, const CScript&, SigVersion) const override {
        int k = ecdsa_calls++; if (k >= VERIF_ORACLE_N) return false; esig[k] = sig; ekey[k] = key; return ecdsa[k];
    }
    bool CheckSchnorrSignature(Span<const unsigned char> sig, Span<const unsigned char> key, SigVersion, ScriptExecutionData&, ScriptError* serror = nullptr) const override {
        ++schnorr_calls; ssig.assign(sig.begin(), sig.end()); skey.assign(key.begin(), key.end());
        if (!schnorr_ok && serror) *serror = (ScriptError)schnorr_err;
        return schnorr_ok;
    }
};
static std::vector<int> ints(const std::string& s) { std::vector<int> r; size_t p = 0; if (s.empty()) return r; while (true) { size_t c = s.find(',', p); r.push_back(atoi(s.substr(p, c == std::string::npos ? std::string::npos : c - p).c_str())); if (c == std::string::npos) break; p = c + 1; } return r; }

int main(int argc, char** argv) {
    for (int i = 1; i < argc; ++i) { const char* e = strchr(argv[i], '='); if (e) A[std::string(argv[i], e - argv[i])] = e + 1; }
    const unsigned int flags = (unsigned int)num("flags"); const int sv = (int)num("sv"); const unsigned int op = (unsigned int)num("op");
    const bool getop_ok = num("getop_ok", 1) != 0; const size_t base = (size_t)num("base"), abase = (size_t)num("abase");
    if (base > 5000 || abase > 5000) { printf("cannot rebuild: %zu/%zu hidden stack items\n", base, abase); return 3; }
    const long long cs_size = num("cs_size"), cs_ff = num("cs_ff", -1);
    if (cs_size > 100000) { printf("cannot rebuild: conditional nesting %lld\n", cs_size); return 3; }
    sbytes push = arg("pushlen").empty() ? unhex(arg("push")) : sbytes((size_t)num("pushlen"), 0);
    // the script: exactly the decoded operation (or a truncated one when the decode must fail)
    CScript scr;
    if (!getop_ok) { scr.push_back(0x4c); }   // OP_PUSHDATA1 without its length byte: GetOp fails
    else {
        scr.push_back((unsigned char)op);
        if (op <= 0x4e) {
            if (op < 0x4c && push.size() != op) { printf("cannot rebuild: direct push length mismatch\n"); return 3; }
            if (op == 0x4c) scr.push_back((unsigned char)push.size());
            if (op == 0x4d) { scr.push_back(push.size() & 0xff); scr.push_back((push.size() >> 8) & 0xff); }
            if (op == 0x4e) { for (int k = 0; k < 4; ++k) scr.push_back((push.size() >> (8 * k)) & 0xff); }
            scr.insert(scr.end(), push.begin(), push.end());
        }
    }
    sstack st(base, sbytes(1, 0x01)); { sstack w = items(arg("items")); st.insert(st.end(), w.begin(), w.end()); }
    // ---- signature opcodes: oracle verdicts come from the counterexample; verdicts that are computed by real code in the real
    // interpreter (low-S test, FindAndDelete) are REALISED: the script gets the prescribed number of occurrences of each signature
    // push in front of the operation, and the low-S verdict is taken from the real CPubKey::CheckLowS for the given bytes
    const bool sigop = getop_ok && ((op >= 0xac && op <= 0xaf) || op == 0xba);
    size_t prefix_len = 0; bool oracle_differs = false;
    SpecSigOracles orc; SpecSigUse use; std::vector<int> ev = ints(arg("ecdsa")), fv = ints(arg("fad"));
    for (int i = 0; i < VERIF_ORACLE_N; ++i) { orc.ecdsa_ok[i] = i < (int)ev.size() && ev[i]; orc.fad_result[i] = i < (int)fv.size() ? fv[i] : 0; }
    orc.schnorr_ok = num("schnorr_ok") != 0; orc.schnorr_err = (int)num("schnorr_err", (int)SCRIPT_ERR_SCHNORR_SIG); orc.lows_ok = num("lows") != 0;
    orc.mock_on = num("mock") != 0; orc.mock_sig = unhex(arg("msig")); orc.mock_key = unhex(arg("mkey"));
    use.ecdsa_calls = use.schnorr_calls = use.fad_calls = 0; use.weight = num("weight");
    ECCVerifyHandle ecc_handle;
    if (sigop) {
        // which stack items are the signatures (single-signature opcodes: depth 2 resp. 3; multisig: below the signature count)
        std::vector<sbytes> sigs;
        if (op == 0xac || op == 0xad) { if (st.size() >= 2) sigs.push_back(st[st.size() - 2]); }
        else if (op == 0xba) { if (st.size() >= 3) sigs.push_back(st[st.size() - 3]); }
        else if (!st.empty() && st.back().size() <= 1) {
            size_t nk = st.back().empty() ? 0 : st.back()[0];
            if (nk <= 20 && st.size() >= nk + 2 && st[st.size() - 2 - nk].size() <= 1) { size_t ns = st[st.size() - 2 - nk].empty() ? 0 : st[st.size() - 2 - nk][0]; if (ns <= nk && st.size() >= nk + ns + 2) for (size_t i = 0; i < ns; ++i) sigs.push_back(st[st.size() - 3 - nk - i]); }
        }
        CScript pre;
        if (sv == SSV_BASE) for (size_t i = 0; i < sigs.size(); ++i) for (int f = 0; f < orc.fad_result[i] && f < 3; ++f) pre << sigs[i];
        scr.insert(scr.begin(), pre.begin(), pre.end()); prefix_len = pre.size();
        bool any = false, real_low = true;
        for (auto& sg : sigs) if (spec_valid_der(sg)) { bool l = CPubKey::CheckLowS(sbytes(sg.begin(), sg.end() - 1)); if (any && l != real_low) { printf("cannot rebuild: the signatures differ in their low-S verdict (the rules model one verdict per step)\n"); return 3; } real_low = l; any = true; }
        if (any && real_low != orc.lows_ok) { orc.lows_ok = real_low; oracle_differs = true; }
    }
    sstack alt(abase, sbytes(1, 0x01)); { sstack w = items(arg("aitems")); alt.insert(alt.end(), w.begin(), w.end()); }
    OracleChecker chk(num("lt") != 0, num("sq") != 0);
    ScriptError err = SCRIPT_ERR_UNKNOWN_ERROR;
    sstack real = st;
    ScriptExecutionEnvironment env(real, scr, flags, chk);
    env.sigversion = sv == SSV_BASE ? SigVersion::BASE : sv == SSV_WITNESS_V0 ? SigVersion::WITNESS_V0 : SigVersion::TAPSCRIPT;
    if (sigop) {
        for (int i = 0; i < VERIF_ORACLE_N; ++i) chk.ecdsa[i] = orc.ecdsa_ok[i];
        chk.schnorr_ok = orc.schnorr_ok; chk.schnorr_err = orc.schnorr_err;
        if (orc.mock_on) { env.pretend_valid_map[orc.mock_sig] = orc.mock_key; env.pretend_valid_pubkeys.insert(orc.mock_key); }
        env.execdata.m_validation_weight_left = use.weight; env.execdata.m_validation_weight_left_init = true;
        if (sv == 2) env.sigversion = SigVersion::TAPROOT;
    }
    env.nOpCount = (int)num("nop"); env.altstack = alt; env.allow_disabled_opcodes = num("ad") != 0; env.opcode_pos = (uint32_t)num("pos"); env.serror = &err;
    for (long long i = 0; i < cs_size; ++i) env.vfExec.push_back(!(cs_ff >= 0 && cs_ff != 0xffffffffLL && i >= cs_ff));
    // specification
    SpecCtx c; SpecState s;
    c.flags = flags; c.sv = sv; c.allow_disabled = env.allow_disabled_opcodes; c.getop_ok = getop_ok; c.opcode = getop_ok ? op : 0x4c; c.push = getop_ok ? push : sbytes();
    c.locktime_ok = chk.lt; c.sequence_ok = chk.sq; c.opcode_pos = env.opcode_pos;
    memset(c.hash_out, 0, 32);
    if (!st.empty() && op >= SOP_RIPEMD160 && op <= SOP_HASH256) {
        const sbytes& t = st.back(); unsigned char h[32] = {0};
        if (op == SOP_RIPEMD160) CRIPEMD160().Write(t.data(), t.size()).Finalize(h);
        else if (op == SOP_SHA1) CSHA1().Write(t.data(), t.size()).Finalize(h);
        else if (op == SOP_SHA256) CSHA256().Write(t.data(), t.size()).Finalize(h);
        else if (op == SOP_HASH160) { sbytes o(20); CHash160().Write(t).Finalize(o); memcpy(h, o.data(), 20); }
        else { sbytes o(32); CHash256().Write(t).Finalize(o); memcpy(h, o.data(), 32); }
        memcpy(c.hash_out, h, 32);
    }
    s.stack = st; s.alt = alt; s.cs_size = (uint32_t)cs_size; s.cs_first_false = (cs_ff < 0 || cs_ff >= cs_size) ? SPEC_NO_FALSE : (uint32_t)cs_ff; s.nOpCount = env.nOpCount;
    s.codesep_moved = false; s.codesep_pos = env.execdata.m_codeseparator_pos; s.locktime_calls = s.sequence_calls = 0; s.locktime_arg = s.sequence_arg = 0; s.hash_calls = 0; s.hash_algo = 0;
    g_spec_orc = &orc; g_spec_use = &use;
    SpecOut o = spec_step(c, s);
    // the real code
    CScript::const_iterator pc = env.script.begin() + prefix_len;
    bool ok = false; int exc = 0; std::string what;
    try { ok = StepScript(env, pc, nullptr); }
    catch (const scriptnum_error& e) { what = e.what(); exc = strstr(e.what(), "overflow") ? SPEC_VT_SCRIPTNUM_OVERFLOW : SPEC_VT_SCRIPTNUM_NONMINIMAL; }
    catch (const std::exception& e) { what = e.what(); exc = 99; }
    printf("opcode 0x%02x flags 0x%x version %d opcount %d\n", op, flags, sv, (int)num("nop")); show("stack before", st); show("alt before", alt);
    printf("rules   : %s", o.kind == SO_OK ? "success" : o.kind == SO_ERR ? "script error " : "exception kind "); if (o.kind == SO_ERR) printf("%d (%s)", o.err, o.err >= 0 ? ScriptErrorString((ScriptError)o.err).c_str() : "any"); if (o.kind == SO_EXC) printf("%d", o.exc); printf("\n");
    printf("btcdeb  : %s", exc ? "exception " : ok ? "success" : "script error "); if (exc) printf("'%s'", what.c_str()); else if (!ok) printf("%d (%s)", (int)err, ScriptErrorString(err).c_str()); printf("\n");
    bool bad = false;
    if (o.kind == SO_EXC) bad = (exc == 0) || (exc != 99 && exc != o.exc);
    else if (exc) bad = true;
    else if (o.kind == SO_ERR) bad = ok || (o.err >= 0 && (int)err != o.err);
    else {
        if (!ok) bad = true;
        else {
            if (real != s.stack) { bad = true; show("stack (btcdeb)", real); show("stack (rules) ", s.stack); }
            if (env.altstack != s.alt) { bad = true; show("alt (btcdeb)", env.altstack); show("alt (rules) ", s.alt); }
            if (env.vfExec.size() != s.cs_size || env.vfExec.all_true() != (s.cs_first_false == SPEC_NO_FALSE)) { bad = true; printf("conditional state differs\n"); }
            if (env.nOpCount != s.nOpCount) { bad = true; printf("op count %d vs %d\n", env.nOpCount, s.nOpCount); }
            if (chk.lt_calls != s.locktime_calls || chk.sq_calls != s.sequence_calls) { bad = true; printf("lock-time oracle use differs\n"); }
            if (sigop) {
                if (env.sigversion == SigVersion::TAPSCRIPT && env.execdata.m_validation_weight_left != use.weight) { bad = true; printf("signature budget %lld vs %lld\n", (long long)env.execdata.m_validation_weight_left, (long long)use.weight); }
                if (chk.schnorr_calls != use.schnorr_calls || (use.schnorr_calls && (chk.ssig != use.schnorr_sig || chk.skey != use.schnorr_key))) { bad = true; printf("Schnorr verification requests differ\n"); }
                if (chk.ecdsa_calls < use.ecdsa_calls) { bad = true; printf("fewer ECDSA verifications requested than prescribed\n"); }
                for (int i = 0; i < use.ecdsa_calls && i < chk.ecdsa_calls && i < VERIF_ORACLE_N; ++i) if (chk.esig[i] != use.ecdsa_sig[i] || chk.ekey[i] != use.ecdsa_key[i]) { bad = true; printf("ECDSA verification %d is requested for another signature/key pair than prescribed\n", i); }
            }
        }
    }
    printf(bad ? "REPRODUCED: the real interpreter deviates from the rules on this input\n" : "not reproduced: the real interpreter follows the rules on this input\n");
    if (!bad && oracle_differs) { printf("(the verifier's low-S verdict is not the one the real test gives for these bytes; with the real verdict the input does not show the failure: cannot rebuild)\n"); return 3; }
    if (!bad && num("reduced")) { printf("(the verifier's input was reduced to allocatable sizes; the reduced input does not show the failure: cannot rebuild)\n"); return 3; }
    return bad ? 1 : 0;
}
