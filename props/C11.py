from vf import Query
from props import units_step as US
from props import C02
from props.common import *
import re
def unit_mocklemma():
    return US.build(with_checksig=True) + '\n#include "h_mocklemma.h"\n'
def lemma(name, op, n, k=40):
    return Query(name, 'harness', unit_mocklemma, 'h_mocklemma', defines=[f'H_OP={op:#x}', f'H_N={n}', f'VERIF_STACK_W={n}', f'VERIF_ITEM_CAP={k}', 'VERIF_SCRIPT_CAP=24'], unwind=max(k + 2, 34), timeout=3000, object_bits=12, backend='kissat',
                 bounded=f'element storage {k} bytes; one listed pair', functions=['harness/spec_sig.h: spec_sig_op (lemma over the specification)'])
from props import units_main as UM
PPV = [Query(f'pair_list_form{f}', 'harness', UM.unit_pretend_valid, 'h_pretend_valid', defines=['VERIF_ITEM_CAP=8', f'H_PV_FORM={f}'], unwind=30, timeout=900,
             functions=['instance.cpp: Instance::parse_pretend_valid_expr'], bounded='pair lists of the forms S:P, S1:P1,S2:P2, P, S:P:Q, S:P,Q and the empty list, with symbolic characters; expression evaluation (Value) is an oracle') for f in range(6)]
QUERIES = PPV + [lemma('mock_lemma_checksig', 0xac, 2), lemma('mock_lemma_checksigverify', 0xad, 2), lemma('mock_lemma_checksigadd', 0xba, 3)]
# code == spec for every mock configuration (the mock table is symbolic in all C02 signature queries): re-run the single-signature ones and two multisig cases
QUERIES += [q for q in C02.QUERIES if re.match(r'sig_(checksig_pre|checksig_tapscript|checksig_taproot|checksigverify_pre|checksigadd_tapscript|multisig_1of0|multisig_1of1|multisig_2of1)$', q.name)]   # (multisig 1of1: quick; more keys: thorough tier)
META = {'level': 'proof', 'trusted_base': TRUSTED + ['stubs/step_env_sig.h oracles'],
 'assumptions': ASSUME_COMMON + [
   "the pair-list parser Instance::parse_pretend_valid_expr is decided for six list shapes with symbolic characters (pair_list_form*), the evaluation of each expression (Value) being an oracle",
   "one listed pair S:P with arbitrary byte strings (the table lookups of the real code are modelled for a single entry)",
   "multisig: listed keys are honoured inside the matching loop (checked in the C02 multisig queries with a symbolic table); the lemma is stated for the single-signature opcodes",
 ],
 'explanation': 'lemma over harness/spec_sig.h by self-composition (option on / off) + the C02 code==spec contracts with a fully symbolic mock table'}
MANIFEST = {
 'text': 'Pair lists: S:P and S1:P1,S2:P2 register exactly the listed pairs in order, lists with a missing or doubled colon are rejected. Opcodes: (a) the listed signature checked against its listed key succeeds in CHECKSIG / CHECKSIGVERIFY / CHECKSIGADD under every flag set, encoding, script version (legacy, v0, tapscript, taproot key path) and oracle verdict, without consulting verification; (b) another signature for the listed key and (c) any check not involving the listed key have exactly the verdict, stack, op count and budget they have without the option - proved as a self-composition lemma over the specification and transferred to the real EvalChecksig / multisig code by the contracts re-run here with a symbolic mock table.',
 'note': 'Pair-list parser: six list shapes, expression evaluation as oracle. Opcode lemma: one listed pair.',
 'technique': 'self-composition lemma over the executable specification + assume/assert contracts of the real EvalChecksig code with a symbolic mock table; CBMC',
 'design_ref': 'DESIGN.md 6 (C11)'}
