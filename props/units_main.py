"""fragments of btcdeb.cpp main() small enough to stand alone (R-PARTIAL): the stdin script reader"""
from slice import *
def unit_eval_parse():
    """exec's token parser: Instance::eval from its first line up to (not including) the execution loop (R-PARTIAL)"""
    from props import units_enc as UE
    t = '#include "verif_std.h"\n#include "enc_env.h"\n#include "libc_num.h"\n'
    t += block('script/script.h', r'^enum opcodetype')
    t += block('script/script.h', r'^class CScriptNum$')
    t += UE.cscript_members()
    t += '#include "evalparse_env.h"\n'
    t += block('util/strencodings.h', r'^constexpr inline bool IsSpace\(char c\) noexcept', trailing=None)
    t += between('util/strencodings.cpp', r'^const signed char p_util_hexdigit\[256\] =', r'^bool IsHex\(std::string_view str\)', include_end=False)
    t += block('util/strencodings.cpp', r'^bool TryHex\(const std::string& str, std::vector<unsigned char>& rv\)', trailing=None)
    f = between('instance.cpp', r'^bool Instance::eval\(const size_t argc, char\* const\* argv\) \{', r'^    CScript::const_iterator it = script\.begin\(\);', include_end=False)
    f = rewrite(f, [(r'bool Instance::eval\(const size_t argc, char\* const\* argv\) \{', 'bool verif_eval_parse(const size_t argc, char* const* argv) {', 1),
                    # R-VLA / R-LIBC: the variable-length buffer gets the model's capacity, snprintf("%d") its model
                    (r'char buf\[vlen \+ 1\];', 'char buf[VERIF_TOKEN_CAP + 2]; VERIF_LIMIT(vlen <= VERIF_TOKEN_CAP, "token length");', None),
                    (r'snprintf\(buf, ([^,]+), "%d", n\);', r'verif_snprintf_d(buf, \1, n);', None)])
    if re.search(r'\bsnprintf\s*\(', f) or re.search(r'\bchar \w+\[(?!VERIF_)[^\]0-9][^\]]*\];', f):
        raise SliceError("R-VLA / R-LIBC: a variable-length array or an unmodelled snprintf form is left in exec's token parser")
    t += f + '    *g_parsed_script = script;\n    return true;\n}\n'
    t = rewrite(t, R_TYPES + R_LIMITS)
    t = r_throw(t, THROW_TABLE)
    return t + '\n#include "h_evalparse.h"\n'

def unit_value_ctor():
    """Value(const char*) of value.h: classification of a PLAIN token (no brackets, no function call, no 0b form) - R-PARTIAL"""
    from props import units_enc as UE
    t = '#include "verif_std.h"\n#include "enc_env.h"\n#include "libc_num.h"\n'
    t += block('script/script.h', r'^enum opcodetype')
    t += block('script/script.h', r'^class CScriptNum$')
    t += UE.cscript_members()
    t += '#include "evalparse_env.h"\nstatic bool VALUE_EXTENDED = false;\ninline void verif_unmodelled(const char* what) { __CPROVER_assert(0, "verif-limit: branch outside the plain-token classification"); }\n'
    t += block('util/strencodings.h', r'^constexpr inline bool IsSpace\(char c\) noexcept', trailing=None)
    t += between('util/strencodings.cpp', r'^const signed char p_util_hexdigit\[256\] =', r'^bool IsHex\(std::string_view str\)', include_end=False)
    t += block('util/strencodings.cpp', r'^bool TryHex\(const std::string& str, std::vector<unsigned char>& rv\)', trailing=None)
    t += 'struct Value {\n'
    t += between('value.h', r'^    enum \{$', r'^    static std::vector<Value> parse_args\(const std::vector<const char\*> args\)', include_end=False)
    c = block('value.h', r'^    Value\(const char\* v, size_t vlen = 0, bool non_numeric = false\) \{', trailing=None)
    c = replace_block_body(c, r"^        if \(vlen > 1 && v\[0\] == '\[' && v\[vlen - 1\] == '\]'\) \{", 'verif_unmodelled("bracketed sub-script"); return;')
    c = replace_block_body(c, r"^        if \(VALUE_EXTENDED && vlen > 1 && v\[0\] == '0' && v\[1\] == 'b'\) \{", 'verif_unmodelled("0b literal"); return;')
    c = replace_block_body(c, r"^        if \(vlen > 3 && v\[vlen-1\] == '\)'\) \{", 'verif_unmodelled("inline function call"); return;')
    # R-TERN: `c ? 0 : atoll(v)` is typed as int by CBMC's front end (arms of different integer width): spelled as if/else
    c = rewrite(c, [(r'int64 = non_numeric \? 0 : atoll\(v\);', 'if (non_numeric) int64 = 0; else int64 = atoll(v);', 1)])
    c = rewrite(c, [(r'char buf\[vlen \+ 1\];', 'char buf[VERIF_TOKEN_CAP + 2]; VERIF_LIMIT(vlen <= VERIF_TOKEN_CAP, "token length");', None),
                    (r'snprintf\(buf, ([^,]+), "%" PRId64, int64\);', r'verif_snprintf_d(buf, \1, int64);', None)])
    if re.search(r'\bsnprintf\s*\(', c) or re.search(r'\bchar \w+\[(?!VERIF_)[^\]0-9][^\]]*\];', c):
        raise SliceError("R-VLA / R-LIBC: a variable-length array or an unmodelled snprintf form is left in the Value constructor")
    t += c + '};\n'
    t = rewrite(t, R_TYPES + R_LIMITS)
    t = r_throw(t, THROW_TABLE)
    return t + '\n#include "h_valuector.h"\n'

def unit_getopcode():
    """the opcode-name table: GetOpCode (debugger/script.cpp) with HexDigit / IsHex (util/strencodings.cpp)"""
    t = '#include "verif_std.h"\n#include "opname_env.h"\n'
    t += block('script/script.h', r'^enum opcodetype')
    t += between('util/strencodings.cpp', r'^const signed char p_util_hexdigit\[256\] =', r'^bool IsHex\(std::string_view str\)', include_end=False)
    ih = block('util/strencodings.cpp', r'^bool IsHex\(std::string_view str\)', trailing=None)
    ih = rewrite(ih, [(r'for \(char c : str\) \{', 'for (size_t verif_k = 0; verif_k < str.size(); ++verif_k) { char c = str[verif_k];', 1)])
    t += ih
    t += block('debugger/script.cpp', r'^opcodetype GetOpCode\(const char\* name\)', trailing=None, open_at_bol=True)
    return t + '\n#include "h_getopcode.h"\n'

def unit_pretend_valid():
    """Instance::parse_pretend_valid_expr (instance.cpp): the --pretend-valid pair-list parser"""
    t = '#include "verif_std.h"\n#include "ppv_env.h"\n'
    f = block('instance.cpp', r'^bool Instance::parse_pretend_valid_expr\(const char\* expr\)', trailing=None)
    t += rewrite(f, R_TYPES)
    return t + '\n#include "h_pretend_valid.h"\n'

def unit_cfg_taproot():
    """the witness-v1 branch of Instance::configure_tx_txin (instance.cpp): annex, key path / script path, control-block size rule,
    leaf version, tapscript signature budget, initial stack - R-PARTIAL: the branch body wrapped as a function of the objects it uses"""
    from props import units_enc as UE
    from props import units_step as US
    t = '#include "verif_std.h"\n#include "enc_env.h"\n'
    t += block('script/script.h', r'^enum opcodetype')
    t += block('script/script.h', r'^class CScriptNum$')
    cs = UE.cscript_members()
    cs = rewrite(cs, [(r'    CScript\(\) \{ \}\n', '    CScript() { }\n    CScript(const unsigned char* b, const unsigned char* e) { size_t k = (size_t)(e - b); VERIF_LIMIT(k <= VERIF_SCRIPT_CAP, "byte vector storage capacity"); for (size_t i = 0; i < VERIF_SCRIPT_CAP; ++i) if (i < k) s.a[i] = b[i]; n = k; }\n', 1)])
    t += cs
    t += between('script/script.h', r'^static constexpr unsigned int ANNEX_TAG = ', r'^', include_end=False)
    t += rewrite(between('script/script.h', r'^static constexpr int64_t VALIDATION_WEIGHT_OFFSET\{50\};', r'^', include_end=False), [(r'VALIDATION_WEIGHT_OFFSET\{50\};', 'VALIDATION_WEIGHT_OFFSET = 50;', 1)])
    t += block('script/interpreter.h', r'^enum class SigVersion')
    t += '#include "cfgtap_env.h"\n'
    t += r_nsdmi(rewrite(block('script/interpreter.h', r'^struct ScriptExecutionData'), US.ENV_RULES), 'ScriptExecutionData', 4)
    t += between('script/interpreter.h', r'^/\*\* Signature hash sizes \*/', r'^extern const HashWriter HASHER_TAPSIGHASH', include_end=False)
    h, body = body_of('instance.cpp', r'^        \} else if \(witprogver == 1\) \{')
    body = body.rstrip()
    if not body.endswith('}'):
        raise SliceError("configure_tx_txin: witness-v1 branch does not end with its closing brace")
    body = body[:-1] + '    return true;\n}\n'
    body = rewrite(body, [(r'auto stack = wstack;', 'verif_stack stack = wstack;', 1),                                  # R-AUTO
                          (r'\(HashWriter\{\} << stack\.back\(\)\)\.GetSHA256\(\)', '(HashWriter() << stack.back()).GetSHA256()', 1),   # R-BRACEINIT
                          (r'auto control = std::move\(stack\.back\(\)\);', 'verif_bytes control = stack.back();', 1),       # R-AUTO, R-MOVE
                          (r'tce = new TaprootCommitmentEnv\(', 'tce = verif_new_tce(', 1)])                               # R-NEW: allocation -> the one modelled object
    code_only = re.sub(r'"(?:[^"\\\n]|\\.)*"', '""', re.sub(r'//[^\n]*', '', body))
    if re.search(r'\bauto\b|\bnew\b|std::move', code_only):
        raise SliceError("configure_tx_txin witness-v1 branch: an auto / new / std::move form without rewrite rule is left")
    t += '// ---- R-PARTIAL: body of the `witprogver == 1` branch of Instance::configure_tx_txin as a function of the objects it uses\n'
    t += 'static bool verif_cfg_taproot(verif_stack& wstack, verif_bytes& program, ScriptExecutionData& execdata, CScript& validation, CScript& scriptPubKey, SigVersion& sigver, bool& has_preamble, size_t& wstack_to_stack, TaprootCommitmentEnv*& tce)\n'
    t += body
    # the legacy (no witness) branch of the same function
    # (located structurally: the else-branch of `if (wstack.size() > 0) {`, so that edits of its comment do not break the anchor)
    import slice as _S
    src = _S._read('instance.cpp')
    ms = list(re.finditer(r'^    if \(wstack\.size\(\) > 0\) \{', src, re.M))
    if len(ms) != 1: raise SliceError("configure_tx_txin: `if (wstack.size() > 0) {` not found exactly once")
    e = _S._scan(src, src.index('{', ms[0].start()))
    me = re.match(r' else \{', src[e:])
    if not me: raise SliceError("configure_tx_txin: no else-branch after the witness branch")
    e2 = _S._scan(src, e + me.end() - 1)
    a_, b_ = _S._note('instance.cpp', src, e, e2)
    lb = f"// ---- sliced verbatim from instance.cpp:{a_}-{b_}\n" + src[e + me.end() - 1:e2] + "\n"
    t += '// ---- R-PARTIAL: body of the legacy branch of Instance::configure_tx_txin\n'
    t += 'static void verif_cfg_legacy(CScript& scriptSig, CScript& scriptPubKey, SigVersion& sigver, CScript& script, CScript& successor_script)\n' + lb.rstrip() + '\n'
    t = rewrite(t, R_TYPES + R_LIMITS)
    t = r_throw(t, THROW_TABLE)
    return t + '\n#include "h_cfgtap.h"\n'
