"""fragments of btcdeb.cpp main() small enough to stand alone (R-PARTIAL): the stdin script reader"""
from slice import *
def unit_stdin():
    t = '#include "verif_std.h"\n#include "stdin_env.h"\n'
    frag = between('btcdeb.cpp', r'^        char buf\[1024\];$', r'^        script_str = strdup\(buf\);$', include_end=True)
    t += 'static char* verif_stdin_script() {\n    char* script_str = 0;\n    {\n' + frag + '    }\n    return script_str;\n}\n'
    return t + '\n#include "h_stdin.h"\n'

def unit_eval_parse():
    """exec's token parser: Instance::eval from its first line up to (not including) the execution loop (R-PARTIAL)"""
    from props import units_enc as UE
    t = '#include "verif_std.h"\n#include "enc_env.h"\n#include "libc_num.h"\n'
    t += block('script/script.h', r'^enum opcodetype')
    t += block('script/script.h', r'^class CScriptNum$')
    t += UE.cscript_members()
    t += '#include "evalparse_env.h"\n'
    t += block('util/strencodings.h', r'^constexpr inline bool IsSpace\(char c\) noexcept', trailing=None)
    t += between('util/strencodings.cpp', r'^const signed char p_util_hexdigit\[256\] =', r'^bool IsHex\(std::string_view str\)', include_end=False)
    t += block('util/strencodings.cpp', r'^bool TryHex\(const std::string& str, std::vector<unsigned char>& rv\)', trailing=None)
    f = between('instance.cpp', r'^bool Instance::eval\(const size_t argc, char\* const\* argv\) \{', r'^    CScript::const_iterator it = script\.begin\(\);', include_end=False)
    f = rewrite(f, [(r'bool Instance::eval\(const size_t argc, char\* const\* argv\) \{', 'bool verif_eval_parse(const size_t argc, char* const* argv) {', 1),
                    # R-VLA / R-LIBC: the variable-length buffer gets the model's capacity, snprintf("%d") its model
                    (r'char buf\[vlen \+ 1\];', 'char buf[VERIF_TOKEN_CAP + 2]; VERIF_LIMIT(vlen <= VERIF_TOKEN_CAP, "token length");', None),
                    (r'snprintf\(buf, ([^,]+), "%d", n\);', r'verif_snprintf_d(buf, \1, n);', None)])
    if re.search(r'\bsnprintf\s*\(', f) or re.search(r'\bchar \w+\[(?!VERIF_)[^\]0-9][^\]]*\];', f):
        raise SliceError("R-VLA / R-LIBC: a variable-length array or an unmodelled snprintf form is left in exec's token parser")
    t += f + '    *g_parsed_script = script;\n    return true;\n}\n'
    t = rewrite(t, R_TYPES + R_LIMITS)
    t = r_throw(t, THROW_TABLE)
    return t + '\n#include "h_evalparse.h"\n'

def unit_value_ctor():
    """Value(const char*) of value.h: classification of a PLAIN token (no brackets, no function call, no 0b form) - R-PARTIAL"""
    from props import units_enc as UE
    t = '#include "verif_std.h"\n#include "enc_env.h"\n#include "libc_num.h"\n'
    t += block('script/script.h', r'^enum opcodetype')
    t += block('script/script.h', r'^class CScriptNum$')
    t += UE.cscript_members()
    t += '#include "evalparse_env.h"\nstatic bool VALUE_EXTENDED = false;\ninline void verif_unmodelled(const char* what) { __CPROVER_assert(0, "verif-limit: branch outside the plain-token classification"); }\n'
    t += block('util/strencodings.h', r'^constexpr inline bool IsSpace\(char c\) noexcept', trailing=None)
    t += between('util/strencodings.cpp', r'^const signed char p_util_hexdigit\[256\] =', r'^bool IsHex\(std::string_view str\)', include_end=False)
    t += block('util/strencodings.cpp', r'^bool TryHex\(const std::string& str, std::vector<unsigned char>& rv\)', trailing=None)
    t += 'struct Value {\n'
    t += between('value.h', r'^    enum \{$', r'^    static std::vector<Value> parse_args\(const std::vector<const char\*> args\)', include_end=False)
    c = block('value.h', r'^    Value\(const char\* v, size_t vlen = 0, bool non_numeric = false\) \{', trailing=None)
    c = replace_block_body(c, r"^        if \(vlen > 1 && v\[0\] == '\[' && v\[vlen - 1\] == '\]'\) \{", 'verif_unmodelled("bracketed sub-script"); return;')
    c = replace_block_body(c, r"^        if \(VALUE_EXTENDED && vlen > 1 && v\[0\] == '0' && v\[1\] == 'b'\) \{", 'verif_unmodelled("0b literal"); return;')
    c = replace_block_body(c, r"^        if \(vlen > 3 && v\[vlen-1\] == '\)'\) \{", 'verif_unmodelled("inline function call"); return;')
    # R-TERN: `c ? 0 : atoll(v)` is typed as int by CBMC's front end (arms of different integer width): spelled as if/else
    c = rewrite(c, [(r'int64 = non_numeric \? 0 : atoll\(v\);', 'if (non_numeric) int64 = 0; else int64 = atoll(v);', 1)])
    c = rewrite(c, [(r'char buf\[vlen \+ 1\];', 'char buf[VERIF_TOKEN_CAP + 2]; VERIF_LIMIT(vlen <= VERIF_TOKEN_CAP, "token length");', None),
                    (r'snprintf\(buf, ([^,]+), "%" PRId64, int64\);', r'verif_snprintf_d(buf, \1, int64);', None)])
    if re.search(r'\bsnprintf\s*\(', c) or re.search(r'\bchar \w+\[(?!VERIF_)[^\]0-9][^\]]*\];', c):
        raise SliceError("R-VLA / R-LIBC: a variable-length array or an unmodelled snprintf form is left in the Value constructor")
    t += c + '};\n'
    t = rewrite(t, R_TYPES + R_LIMITS)
    t = r_throw(t, THROW_TABLE)
    return t + '\n#include "h_valuector.h"\n'
