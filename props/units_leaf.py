"""L0 leaf units: verbatim slices of /repo + extern "C" flattening wrappers (no logic in wrappers)."""
from slice import *

PRELUDE = '#include "verif_std.h"\nint verif_expect_throw; int verif_thrown;\n'

def scriptnum_class():
    t = block('script/script.h', r'^class CScriptNum$')
    t = rewrite(t, R_TYPES + R_LIMITS)
    return r_throw(t, THROW_TABLE, 2)

def unit_scriptnum():
    t = PRELUDE + scriptnum_class()
    t += r'''
// ---- flattening wrappers (std::vector<unsigned char> <-> pointer,length); no logic
extern "C" size_t w_scriptnum_serialize(int64_t v, unsigned char* out) {
    verif_bytes r = CScriptNum::serialize(v);
    for (size_t i = 0; i < 9; ++i) if (i < r.n) out[i] = r.s.a[i];
    return r.n;
}
extern "C" int64_t w_scriptnum_decode(const unsigned char* in, size_t len, int require_minimal, size_t maxlen) {
    verif_bytes b(in, in + len);
    CScriptNum n(b, require_minimal != 0, maxlen);
    return n.GetInt64();
}
extern "C" int w_scriptnum_getint(int64_t v) { CScriptNum n(v); return n.getint(); }
extern "C" int64_t w_scriptnum_roundtrip(int64_t v, int require_minimal) {
    CScriptNum a(v);
    CScriptNum n(a.getvch(), require_minimal != 0, 8);
    return n.GetInt64();
}
'''
    return t

# ---- script decoding leaves (C01 L0): GetScriptOp, CScript::HasValidOps, CastToBool, CheckMinimalPush -------------------
def unit_decode():
    t = '#include "verif_std.h"\n#include "decode_env.h"\n'
    t += between('script/script.h', r'^// Maximum number of bytes pushable to the stack', r'^// Maximum number of non-push operations per script', include_end=False)
    t += block('script/script.h', r'^enum opcodetype')
    t += between('script/script.h', r'^static const unsigned int MAX_OPCODE = ', r'^std::string GetOpName', include_end=False)
    t += '#include "decode_env_script.h"\n'
    g = block('script/script.cpp', r'^bool GetScriptOp\(CScriptBase::const_iterator& pc, CScriptBase::const_iterator end, opcodetype& opcodeRet, std::vector<unsigned char>\* pvchRet\)', trailing=None)
    g = rewrite(g, [(r'CScriptBase::const_iterator', 'const unsigned char*', 2)])
    t += g
    t += block('script/script.cpp', r'^bool CScript::HasValidOps\(\) const', trailing=None, open_at_bol=True)
    t += block('script/script.cpp', r'^bool CScript::IsPayToScriptHash\(\) const', trailing=None, open_at_bol=True)
    t += block('script/script.cpp', r'^bool CScript::IsPayToWitnessScriptHash\(\) const', trailing=None, open_at_bol=True)
    t += block('script/script.cpp', r'^bool CScript::IsWitnessProgram\(int& version, std::vector<unsigned char>& program\) const', trailing=None, open_at_bol=True)
    t += block('script/script.cpp', r'^bool CheckMinimalPush\(', trailing=None)
    t += 'typedef verif_bytes valtype;\n' + block('script/interpreter.cpp', r'^bool CastToBool\(const valtype& vch\)', trailing=None)
    # R-MOVE: `script = std::move(result);` -> copy assignment (no move assignment in the stub class; same resulting value)
    t += rewrite(block('script/interpreter.cpp', r'^int FindAndDelete\(CScript& script, const CScript& b\)', trailing=None, open_at_bol=True), [(r'script = std::move\(result\);', 'script = result;', 1)])
    t = rewrite(t, R_TYPES + R_LIMITS)
    return t + '\n#include "h_decode.h"\n'

# ---- compact-size codec (C13 leaves) ------------------------------------------------------------------------------------
def unit_compactsize():
    t = '#include "verif_std.h"\n#include "ser_env.h"\n'
    t += between('serialize.h', r'^static constexpr uint64_t MAX_SIZE = 0x02000000;', r'^/\*\* Maximum amount of memory', include_end=False)
    t += block('serialize.h', r'^inline unsigned int GetSizeOfCompactSize\(uint64_t nSize\)', trailing=None)
    t += block('serialize.h', r'^void WriteCompactSize\(Stream& os, uint64_t nSize\)', trailing=None).replace('void WriteCompactSize', 'template<typename Stream>\nvoid WriteCompactSize', 1)
    t += block('serialize.h', r'^uint64_t ReadCompactSize\(Stream& is, bool range_check = true\)', trailing=None).replace('uint64_t ReadCompactSize', 'template<typename Stream>\nuint64_t ReadCompactSize', 1)
    t = rewrite(t, [(r'std::numeric_limits<unsigned int>::(max|min)\(\)', r'VERIF_LIMIT_unsigned_int_\1', None)] + R_LIMITS)
    t = r_throw(t, [(r'std::ios_base::failure\("non-canonical ReadCompactSize\(\)"\)', 'VT_IOS_FAILURE'), (r'std::ios_base::failure\("ReadCompactSize\(\): size too large"\)', 'VT_IOS_FAILURE')], 4)
    return t + '\n#include "h_compactsize.h"\n'

# ---- Instance::parse_input_transaction (C03 fragment) -------------------------------------------------------------------
def unit_parse_input():
    t = '#include "verif_std.h"\n#include "tx_env.h"\n'
    f = block('instance.cpp', r'^bool Instance::parse_input_transaction\(const char\* txdata, int select_index\)', trailing=None)
    # R-RANGEFOR: range-for over the input vector -> index loop in the same order
    f = rewrite(f, [(r'for \(const auto& input : tx->vin\) \{', 'for (size_t verif_k = 0; verif_k < tx->vin.size(); ++verif_k) { const CTxIn& input = tx->vin[verif_k];', 1)])
    return t + f + '\n#include "h_parse_input.h"\n'

# ---- ConditionStack refinement (C01 L0): the size/first-false representation refines a vector<bool> ----------------------
def unit_condstack():
    t = '#include "verif_std.h"\nint verif_expect_throw; int verif_thrown;\n'
    t += r_nsdmi(rewrite(block('debugger/see.h', r'^class ConditionStack'), R_LIMITS), 'ConditionStack', 2)
    return t + '\n#include "h_condstack.h"\n'

# ---- BIP65 / BIP112 lock-time tests of the transaction signature checker (C01: the oracle behind CLTV / CSV) --------------
def unit_locktime():
    t = '#include "verif_std.h"\nint verif_expect_throw; int verif_thrown;\n'
    t += between('script/script.h', r'^// Threshold for nLockTime: below this value it is interpreted as block number,', r'^// Maximum nLockTime\.', include_end=False)
    t += block('script/script.h', r'^class CScriptNum$')
    consts = between('primitives/transaction.h', r'^    static const uint32_t SEQUENCE_FINAL = ', r'^    static const int SEQUENCE_LOCKTIME_GRANULARITY', include_end=False)
    t += 'class CTxIn { public:\n' + consts + '    uint32_t nSequence;\n};\n'
    t += '#include "locktime_env.h"\n'
    f = between('script/interpreter.cpp', r'^bool GenericTransactionSignatureChecker<T>::CheckLockTime\(const CScriptNum& nLockTime\) const', r'^// explicit instantiation', include_end=False)
    # R-TEMPLATE: member functions of the class template are re-emitted as members of a concrete stand-in class with the same fields
    f = rewrite(f, [(r'bool GenericTransactionSignatureChecker<T>::CheckLockTime\(', 'bool verif_lockchecker::CheckLockTime(', 1),
                    (r'template <class T>\nbool GenericTransactionSignatureChecker<T>::CheckSequence\(', 'bool verif_lockchecker::CheckSequence(', 1)])
    t += f
    t = rewrite(t, R_TYPES + R_LIMITS)
    t = r_throw(t, THROW_TABLE)
    return t + '\n#include "h_locktime.h"\n'

# ---- CScript::HasValidOps as a loop contract (C01 L0): scripts of every length ---------------------------------------------
def unit_hvo_loop():
    t = '#include "verif_std.h"\n#include "decode_env.h"\n'
    t += between('script/script.h', r'^// Maximum number of bytes pushable to the stack', r'^// Maximum number of non-push operations per script', include_end=False)
    t += block('script/script.h', r'^enum opcodetype')
    t += between('script/script.h', r'^static const unsigned int MAX_OPCODE = ', r'^std::string GetOpName', include_end=False)
    t += '#include "hvo_loop_env.h"\n'
    f = block('script/script.cpp', r'^bool CScript::HasValidOps\(\) const', trailing=None, open_at_bol=True)
    m = re.match(r'// ---- [^\n]*\nbool CScript::HasValidOps\(\) const\n\{\n    (CScript::const_iterator it = [^;\n]+;)\n    while \(([^\n]+)\) \{\n', f)
    if not m:
        raise SliceError("R-LOOPCUT: head of CScript::HasValidOps (iterator declaration, loop header) not recognised")
    init, cond = m.group(1), m.group(2)
    b0 = m.end() - 2; depth = 0; k = b0
    while True:
        if f[k] == '{': depth += 1
        elif f[k] == '}':
            depth -= 1
            if depth == 0: break
        k += 1
    body = f[b0 + 1:k]
    tail = re.sub(r'\s+', ' ', f[k + 1:]).strip()
    if tail != 'return true; }':
        raise SliceError(f"R-LOOPCUT: the statement after the loop is not `return true;` ({tail[:60]!r})")
    if re.search(r'\b(break|continue|goto)\b', body):
        raise SliceError("R-LOOPCUT: the loop body leaves the loop other than by return or falling through")
    body = rewrite(body, [(r'return ([^;\n]+);', r'{ verif_ret = (\1); return 1; }', '+')])
    t += '// ---- R-LOOPCUT of CScript::HasValidOps (script/script.cpp): initialisation, condition and body of its loop as member functions;\n'
    t += '// `return X;` inside the body -> `{ verif_ret = (X); return 1; }`, falling through -> `return 0;`; every other token is the sliced text\n'
    t += 'CScript::const_iterator CScript::verif_loop_init() const { ' + init + ' return it; }\n'
    t += 'bool CScript::verif_loop_cond(const_iterator it) const { return ' + cond + '; }\n'
    t += 'int CScript::verif_loop_body(const_iterator& it, bool& verif_ret) const {' + body + '    return 0;\n}\n'
    t = rewrite(t, R_TYPES + R_LIMITS)
    return t + '\n#include "h_hvo_loop.h"\n'
