"""L0 leaf units: verbatim slices of /repo + extern "C" flattening wrappers (no logic in wrappers)."""
from slice import *

PRELUDE = '#include "verif_std.h"\nint verif_expect_throw; int verif_thrown;\n'

def scriptnum_class():
    t = block('script/script.h', r'^class CScriptNum$')
    t = rewrite(t, R_TYPES + R_LIMITS)
    return r_throw(t, THROW_TABLE, 2)

def unit_scriptnum():
    t = PRELUDE + scriptnum_class()
    t += r'''
// ---- flattening wrappers (std::vector<unsigned char> <-> pointer,length); no logic
extern "C" size_t w_scriptnum_serialize(int64_t v, unsigned char* out) {
    verif_bytes r = CScriptNum::serialize(v);
    for (size_t i = 0; i < 9; ++i) if (i < r.n) out[i] = r.s.a[i];
    return r.n;
}
extern "C" int64_t w_scriptnum_decode(const unsigned char* in, size_t len, int require_minimal, size_t maxlen) {
    verif_bytes b(in, in + len);
    CScriptNum n(b, require_minimal != 0, maxlen);
    return n.GetInt64();
}
extern "C" int w_scriptnum_getint(int64_t v) { CScriptNum n(v); return n.getint(); }
extern "C" int64_t w_scriptnum_roundtrip(int64_t v, int require_minimal) {
    CScriptNum a(v);
    CScriptNum n(a.getvch(), require_minimal != 0, 8);
    return n.GetInt64();
}
'''
    return t

# ---- script decoding leaves (C01 L0): GetScriptOp, CScript::HasValidOps, CastToBool, CheckMinimalPush -------------------
def unit_decode():
    t = '#include "verif_std.h"\n#include "decode_env.h"\n'
    t += between('script/script.h', r'^// Maximum number of bytes pushable to the stack', r'^// Maximum number of non-push operations per script', include_end=False)
    t += block('script/script.h', r'^enum opcodetype')
    t += between('script/script.h', r'^static const unsigned int MAX_OPCODE = ', r'^std::string GetOpName', include_end=False)
    t += '#include "decode_env_script.h"\n'
    g = block('script/script.cpp', r'^bool GetScriptOp\(CScriptBase::const_iterator& pc, CScriptBase::const_iterator end, opcodetype& opcodeRet, std::vector<unsigned char>\* pvchRet\)', trailing=None)
    g = rewrite(g, [(r'CScriptBase::const_iterator', 'const unsigned char*', 2)])
    t += g
    t += block('script/script.cpp', r'^bool CScript::HasValidOps\(\) const', trailing=None, open_at_bol=True)
    t += block('script/script.cpp', r'^bool CScript::IsPayToScriptHash\(\) const', trailing=None, open_at_bol=True)
    t += block('script/script.cpp', r'^bool CScript::IsPayToWitnessScriptHash\(\) const', trailing=None, open_at_bol=True)
    t += block('script/script.cpp', r'^bool CScript::IsWitnessProgram\(int& version, std::vector<unsigned char>& program\) const', trailing=None, open_at_bol=True)
    t += block('script/script.cpp', r'^bool CheckMinimalPush\(', trailing=None)
    t += 'typedef verif_bytes valtype;\n' + block('script/interpreter.cpp', r'^bool CastToBool\(const valtype& vch\)', trailing=None)
    # R-MOVE: `script = std::move(result);` -> copy assignment (no move assignment in the stub class; same resulting value)
    t += rewrite(block('script/interpreter.cpp', r'^int FindAndDelete\(CScript& script, const CScript& b\)', trailing=None, open_at_bol=True), [(r'script = std::move\(result\);', 'script = result;', 1)])
    t = rewrite(t, R_TYPES + R_LIMITS)
    return t + '\n#include "h_decode.h"\n'

# ---- compact-size codec (C13 leaves) ------------------------------------------------------------------------------------
def unit_compactsize():
    t = '#include "verif_std.h"\n#include "ser_env.h"\n'
    t += between('serialize.h', r'^static constexpr uint64_t MAX_SIZE = 0x02000000;', r'^/\*\* Maximum amount of memory', include_end=False)
    t += block('serialize.h', r'^inline unsigned int GetSizeOfCompactSize\(uint64_t nSize\)', trailing=None)
    t += block('serialize.h', r'^void WriteCompactSize\(Stream& os, uint64_t nSize\)', trailing=None).replace('void WriteCompactSize', 'template<typename Stream>\nvoid WriteCompactSize', 1)
    t += block('serialize.h', r'^uint64_t ReadCompactSize\(Stream& is, bool range_check = true\)', trailing=None).replace('uint64_t ReadCompactSize', 'template<typename Stream>\nuint64_t ReadCompactSize', 1)
    t = rewrite(t, [(r'std::numeric_limits<unsigned int>::(max|min)\(\)', r'VERIF_LIMIT_unsigned_int_\1', None)] + R_LIMITS)
    t = r_throw(t, [(r'std::ios_base::failure\("non-canonical ReadCompactSize\(\)"\)', 'VT_IOS_FAILURE'), (r'std::ios_base::failure\("ReadCompactSize\(\): size too large"\)', 'VT_IOS_FAILURE')], 4)
    return t + '\n#include "h_compactsize.h"\n'

# ---- Instance::parse_input_transaction (C03 fragment) -------------------------------------------------------------------
def unit_parse_input():
    t = '#include "verif_std.h"\n#include "tx_env.h"\n'
    f = block('instance.cpp', r'^bool Instance::parse_input_transaction\(const char\* txdata, int select_index\)', trailing=None)
    # R-RANGEFOR: range-for over the input vector -> index loop in the same order
    f = rewrite(f, [(r'for \(const auto& input : tx->vin\) \{', 'for (size_t verif_k = 0; verif_k < tx->vin.size(); ++verif_k) { const CTxIn& input = tx->vin[verif_k];', 1)])
    return t + f + '\n#include "h_parse_input.h"\n'

# ---- ConditionStack refinement (C01 L0): the size/first-false representation refines a vector<bool> ----------------------
def unit_condstack():
    t = '#include "verif_std.h"\nint verif_expect_throw; int verif_thrown;\n'
    t += r_nsdmi(rewrite(block('debugger/see.h', r'^class ConditionStack'), R_LIMITS), 'ConditionStack', 2)
    return t + '\n#include "h_condstack.h"\n'
