"""L0 leaf units: verbatim slices of /repo + extern "C" flattening wrappers (no logic in wrappers)."""
from slice import *

PRELUDE = '#include "verif_std.h"\nint verif_expect_throw; int verif_thrown;\n'

def scriptnum_class():
    t = block('script/script.h', r'^class CScriptNum$')
    t = rewrite(t, R_TYPES + R_LIMITS)
    return r_throw(t, THROW_TABLE, 2)

def unit_scriptnum():
    t = PRELUDE + scriptnum_class()
    t += r'''
// ---- flattening wrappers (std::vector<unsigned char> <-> pointer,length); no logic
extern "C" size_t w_scriptnum_serialize(int64_t v, unsigned char* out) {
    verif_bytes r = CScriptNum::serialize(v);
    for (size_t i = 0; i < 9; ++i) if (i < r.n) out[i] = r.s.a[i];
    return r.n;
}
extern "C" int64_t w_scriptnum_decode(const unsigned char* in, size_t len, int require_minimal, size_t maxlen) {
    verif_bytes b(in, in + len);
    CScriptNum n(b, require_minimal != 0, maxlen);
    return n.GetInt64();
}
extern "C" int w_scriptnum_getint(int64_t v) { CScriptNum n(v); return n.getint(); }
extern "C" int64_t w_scriptnum_roundtrip(int64_t v, int require_minimal) {
    CScriptNum a(v);
    CScriptNum n(a.getvch(), require_minimal != 0, 8);
    return n.GetInt64();
}
'''
    return t
