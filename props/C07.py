from vf import Query
from props import units_enc as UE
from props.common import *
FN = ['value.h: Value::operator>>(CScript&)', 'value.h: Value::int_value', 'value.h: Value::data_value', 'script/script.h: CScript::push_int64', 'script/script.h: CScript::operator<<(int64_t / opcodetype / CScriptNum / std::vector<unsigned char>)',
      'script/script.h: CScriptNum::serialize', 'script/script.cpp: CheckMinimalPush']
def q(name, entry, k, tier='quick', timeout=1500):
    return Query(f'{name}_k{k}', 'harness', UE.unit_enc, entry, defines=[f'VERIF_ITEM_CAP={k}', f'VERIF_SCRIPT_CAP={k + 10}'], unwind=k + 14, timeout=timeout, object_bits=10, tier=tier,
                 extra_cbmc=['--max-field-sensitivity-array-size', str(k + 20)], functions=FN,
                 bounded=(f'data tokens of 0..{k} bytes (the consensus element limit is 520)' if entry in ('h_enc_data', 'h_enc_minimal') else None))
PREFIX = Query('enc_prefix', 'harness', UE.unit_enc, 'h_enc_prefix', defines=['VERIF_ITEM_CAP=70000', 'VERIF_SCRIPT_CAP=70008', 'H_ENC_LENGTH_ONLY'], unwind=12, timeout=900, object_bits=10, functions=FN,
               bounded='data of 9..70,000 bytes: push prefix and total length exact, payload bytes by length only')
from props import units_main as UM
CLASSIFY = Query('value_classify', 'harness', UM.unit_value_ctor, 'h_valuector', defines=['VERIF_ITEM_CAP=16', 'VERIF_SCRIPT_CAP=26', 'VERIF_TOKEN_CAP=5'], unwind=30, timeout=2400, object_bits=10,
                 functions=['value.h: Value::Value(const char*, size_t, bool) (plain tokens)', 'util/strencodings.cpp: TryHex, HexDigit, p_util_hexdigit'],
                 bounded='one plain token of at most 5 characters (no whitespace, brackets or parentheses); atoll / snprintf are assumed libc models (stubs/libc_num.h); GetOpCode is an oracle; bracketed sub-scripts, inline functions and 0b literals are outside')
FNAMES = ['debugger/script.cpp: GetOpCode (opcode-name table, OP_ prefix, OP_xNN escape)', 'util/strencodings.cpp: IsHex, HexDigit']
NAMEQ = [Query(f'opnames_{k}', 'harness', UM.unit_getopcode, 'h_getopcode_names', defines=[f'H_CHUNK={k}'], unwind=204, timeout=900, functions=FNAMES) for k in range(8)]
NAMEQ += [Query('opnames_escape', 'harness', UM.unit_getopcode, 'h_getopcode_escape', defines=['H_CHUNK=99'], unwind=204, timeout=900, functions=FNAMES),
          Query('opnames_unknown', 'harness', UM.unit_getopcode, 'h_getopcode_unknown', defines=['H_CHUNK=99'], unwind=204, timeout=900, functions=FNAMES)]
LITERALS = Query('value_long_literals', 'harness', UM.unit_value_ctor, 'h_valuector_literals', defines=['VERIF_ITEM_CAP=16', 'VERIF_SCRIPT_CAP=26', 'VERIF_TOKEN_CAP=24'], unwind=30, timeout=1200, object_bits=10,
                 functions=['value.h: Value::Value(const char*, size_t, bool) (integer-literal branch)'], bounded='eleven CONCRETE boundary literals of 10..20 characters (sampling, not a proof: the symbolic 19-digit query does not finish)')
from props import units_tok as UTK
def _tok(n, tier):
    return Query(f'tokenise_n{n}', 'harness', UTK.unit_tokenise, 'h_tokenise', defines=[f'VERIF_TOK_N={n}'], unwind=n + 4, timeout=3000, object_bits=10, tier=tier,
                 functions=['value.h: Value::parse_args(const char*, size_t) (tokeniser: whitespace, # comments, bracket groups)'],
                 bounded=f'every input of at most {n} characters over the alphabet letter / [ / ] / space / # / newline (nested data-dependent loops: no invariant proof)')
TOKENISE = _tok(7, 'quick')
ARGJOIN = Query('arg_bracket_join', 'harness', UTK.unit_argjoin, 'h_argjoin', defines=['VERIF_ARG_N=3', 'VERIF_ARG_LEN=3'], unwind=20, timeout=2400, object_bits=10,
                functions=['value.h: Value::parse_args(const std::vector<const char*>) (command-line arguments -> values, joining split bracket expressions)'],
                bounded='at most 3 arguments of at most 3 characters over letter / [ / ]')
QUERIES = NAMEQ + [CLASSIFY, LITERALS, TOKENISE, ARGJOIN, _tok(9, 'thorough'), PREFIX, q('enc_data', 'h_enc_data', 80), q('enc_minimal', 'h_enc_minimal', 80), q('enc_int', 'h_enc_int', 16), q('enc_opcode', 'h_enc_opcode', 16),
           q('enc_data', 'h_enc_data', 130, 'thorough', 6000), q('enc_minimal', 'h_enc_minimal', 130, 'thorough', 6000)]
META = {'level': 'proof', 'trusted_base': TRUSTED + ['stubs/enc_env.h: CScript as byte vector with end()-insert, WriteLE16/32 on a little-endian target'],
 'assumptions': ASSUME_COMMON + [
   "claimed: the encoding half - an already classified token (opcode / integer / data) is appended as the exact minimal encoding, for all int64 and all opcode bytes; data tokens up to the stated length",
   "token classification Value(const char*): decided for plain tokens of at most 5 characters with assumed libc models (value_classify); the opcode-name table GetOpCode is proved for all 114 names in both spellings, the OP_xNN escape and a set of unknown names (opnames_*); beyond that not applicable: (parse_args: atoll / snprintf / strndup / VLAs / a 150-way strcmp chain are libc string semantics outside the verifier's reach; bracketed sub-scripts reduce to a data token holding the compiled body (that reduction is inside the constructor, not covered)",
 ],
 'explanation': 'contracts on the real Value::operator>> and CScript push encoders against the minimal-push grammar; lemma: decode(assembled push) = bytes and the interpreter\'s real CheckMinimalPush accepts it'}
MANIFEST = {
 'text': 'Command-line form: arguments outside brackets are one value each, a bracket expression split over several arguments is joined (single spaces, brackets kept, nesting counted) into one value, no argument is used twice (3 arguments of 3 characters). Tokeniser: for every input of up to 7 characters over letter / [ / ] / space / # / newline the tokens are exactly the maximal separator-free runs, bracket groups atomic (nesting counted), # comments dropped to the end of the line, unclosed groups rejected. Opcode names: every one of the 114 opcode names, with and without OP_, resolves to its protocol byte, OP_xNN to NN, unknown names to none. Literal classification for plain tokens of up to 5 characters. Encoding half of btcc: for every opcode byte, every int64 and every data string (bytes exact for 0..80 quick / 0..130 thorough; push prefix and total length exact for every length up to 70,000) the real Value::operator>> / CScript::operator<< / push_int64 / CScriptNum::serialize append exactly the minimal encoding - one opcode byte; OP_0 / OP_1NEGATE / OP_1..16 or a direct push of the minimal script number; the minimal-form push that places exactly the given bytes on the stack - leave earlier bytes untouched, and every emitted push decodes back to the bytes and passes the interpreter\'s real CheckMinimalPush.',
 'note': 'Token classification beyond 5-character plain tokens, tokeniser inputs beyond 7 (9) characters, the compilation of bracketed sub-scripts inside the Value constructor and inline functions are not applicable (libc string functions); payload bytes beyond the storage bound are modelled by length only.',
 'technique': 'assume/assert contracts on the real encoders sliced from value.h / script.h against a grammar-level spec, plus a decode/CheckMinimalPush lemma; CBMC',
 'design_ref': 'DESIGN.md 6 (C07)'}
