from vf import Query
from props import l2_queries as L
from props import C01
from props.common import *
import re
# which opcodes can raise: every numeric decode and every pop; their throw sites are obligations of the step queries (exception raised
# only where prescribed); here: the run-to-completion path handles every one of them
from props import units_main as UM
from props import units_batch as UB
FMAIN = ['btcdeb.cpp: main() (fragment: the stdin script reader, `if (pipe_in) { ... }`)']
STDIN = Query('main_stdin_script', 'harness', UB.unit_stdin_short, 'h_stdin_script2', unwind=40, timeout=900, object_bits=10, functions=FMAIN,
              bounded='input lines of at most 18 characters, compared byte by byte (longer lines: main_stdin_long, by length)')
STDIN_LONG = Query('main_stdin_long', 'harness', UB.unit_stdin_long, 'h_stdin_long', defines=['VERIF_LINE_MAX=1100'], unwind=8, timeout=2400, object_bits=10, functions=FMAIN,
                   bounded='input lines of at most 1100 characters, modelled by length plus first / last characters (a maximal 520-byte push is 1040 characters)')
BATCH = Query('main_batch_driver', 'harness', UB.unit_batch, 'h_batch_driver', unwind=4, timeout=600, object_bits=10,
              functions=['btcdeb.cpp: main() (fragment: the non-interactive driver, `if (pipe_in || pipe_out) { ... }`)'])
QUERIES = [STDIN, STDIN_LONG, BATCH, L.SETUP, L.CONTINUE, L.INSTANCE_STEP] + [q for q in C01.QUERIES if q.tier == 'quick' and re.match(r'step_(unary_8b|addsub_93|within_a5|cltv_b1|pickroll_79_n2)$', q.name)]
META = {'level': 'other', 'trusted_base': TRUSTED,
 'assumptions': ASSUME_COMMON + [
   "also claimed: the stdin script reader fragment of main() (the script is the input line without its LF / CRLF terminator, empty on no input) with fgets / strdup as stubs",
   "claimed clause: 'never terminates abnormally because of a script-level failure' on the path main -> ContinueScript -> StepScript; exit status, stdout format, tty/env mode selection and option independence are whole-process behaviour outside any function contract (not applicable part)",
   "ContinueScript's callee StepScript(InterpreterEnv&) is replaced by a state-independent contract (any result, may raise); the loop is unwound 6 times without unwinding assertion: partial correctness, termination not proved",
 ],
 'explanation': 'contract "no exception escapes, success only when finished" on the real ContinueScript and Instance::step with exception propagation encoded as a ghost flag (R-EXC); the raising sites themselves are obligations of the step queries; division/shift traps of the re-enabled opcodes are obligations of C17'}
MANIFEST = {
 'text': 'Non-interactive driver block of main(): exit status 0 only for a session that ran to completion and printed its final stack once in raw form, otherwise the error is reported on stderr and the status is 1. Script on stdin: taken whole, whatever its length (up to 1100 characters by length, 18 byte by byte), without its LF / CRLF terminator. Abnormal-termination clause (plus: the session setup_environment creates is finished at once only when there is nothing to execute, so an empty scriptSig never turns a failing scriptPubKey into an empty success): for every session state the real ContinueScript (the non-interactive driver) and Instance::step let no interpreter exception (script number overflow, non-minimal number, empty-stack pop, out_of_range) escape and report success only for a finished session; the places where the interpreter raises are pinned by the step contracts re-run here.',
 'note': 'Not claimed: exit status, output format, tty detection, --quiet/--debug independence (whole-process properties of a 500-line main()).',
 'technique': 'assume/assert exception-escape contract on the real ContinueScript / Instance::step (R-EXC flag encoding), callee replaced by a may-raise contract; CBMC',
 'design_ref': 'DESIGN.md 6 (C08)'}
