from vf import Query
from props import C01
from props import l2_queries as L
from props.common import *
from props.replay_step import REPLAY_STEP
import re

def mk(name, opsel, n, w, extra, k=16, tier='quick'):
    defs = [f'H_OPSEL(op)=({opsel})', f'H_N={n}', f'VERIF_STACK_W={max(w, 1)}', f'VERIF_ITEM_CAP={k}'] + extra
    if not any(e.startswith('H_AN=') for e in extra): defs.append('H_AN=0')
    return Query(name, 'harness', C01.unit_step_plain, 'h_step', defines=defs, unwind=max(k + 2, 34), timeout=1500, object_bits=12, tier=tier,
                 bounded=f'stack element storage {k} bytes; limits themselves are exact (depth and counts symbolic)', functions=C01.FN, replay=REPLAY_STEP)
QUERIES = [
 mk('limit_dup', 'op==0x76', 1, 2, ['H_EXEC=1', 'H_CANARY_ERR', 'H_LIM_OPS', 'H_LIM_GROW=1']),            # grows the main stack by one: 1000 / 1001, op count 201 / 202
 mk('limit_toalt', 'op==0x6b', 1, 1, ['H_EXEC=1', 'H_CANARY_ERR', 'H_LIM_OPS']),                          # moves an item: the COMBINED count is what is limited
 mk('limit_fromalt', 'op==0x6c', 0, 2, ['H_EXEC=1', 'H_AN=1', 'H_CANARY_ERR', 'H_LIM_OPS']),
 mk('limit_3dup', 'op==0x6f', 3, 6, ['H_EXEC=1', 'H_CANARY_ERR', 'H_LIM_OPS', 'H_LIM_GROW=3']),           # grows by three: 997+3 = 1000, 998+3 = 1001
 mk('limit_push', 'op==0x4d', 0, 1, ['H_EXEC=1', 'H_CANARY_ERR', 'H_LIM_GROW=1', 'H_PUSHLEN_LO=515', 'H_PUSHLEN_HI=525']),   # OP_PUSHDATA2 around 520 bytes, executed
 mk('limit_push_unexecuted', 'op==0x4d', 0, 1, ['H_EXEC=0', 'H_CANARY_ERR', 'H_PUSHLEN_LO=515', 'H_PUSHLEN_HI=525']),
 mk('limit_smallint', 'op==0x51', 0, 1, ['H_EXEC=1', 'H_CANARY_ERR', 'H_LIM_GROW=1']),                    # not counted (<= OP_16) but limited by the stack size
 mk('limit_nop_unexecuted', 'op==0x61', 0, 1, ['H_EXEC=0', 'H_CANARY_ERR', 'H_LIM_OPS']),                 # counted even in an unexecuted branch
]
# numeric operand size limits (4 bytes, 5 for lock-time operands) are clauses of the step contracts; re-check them here
from props import C02
QUERIES += [q for q in C02.QUERIES if q.tier == 'quick' and re.match(r'sig_multisig_(counts|0of0|1of0)$', q.name)]   # 20-key limit and the op-count charge of the key count
QUERIES += [L.CTOR, L.END_OF_SCRIPT]   # 10,000-byte script rule at session construction (tapscript exempt); op count restarts at every script switch
QUERIES += [q for q in C01.QUERIES if q.tier == 'quick' and re.match(r'step_(addsub_93|unary_8b|within_a5|cltv_b1|csv_b2|pickroll_79_n2)$', q.name)]
META = {
 'level': 'proof',
 'trusted_base': TRUSTED,
 'assumptions': ASSUME_COMMON + [
   "the 520-byte push boundary is decided on push LENGTHS 515..525 without modelling the payload bytes beyond the element storage",
   "multisig: the key-count limit (0..20) and the charge of the key count to the operation counter are decided by the C02 multisig queries re-run here (counts, 0-of-0, 1-of-0)",
   "script-size rule: decided on script LENGTHS 0..20000 at session construction without modelling bytes beyond the stored prefix",
 ],
 'explanation': 'boundary contracts of the real StepScript: for each limit the query admits L-1, L and L+1 (witnessed by canaries) and the ensures clause pins success/success/specific error; depth, counts and flags symbolic',
}
MANIFEST = {
 'text': 'Deductive check that the real interpreter step enforces the consensus limits at exactly their boundaries: 520-byte pushes (519..521 executed and unexecuted), 1000 combined stack+altstack items (999/1000/1001 through growing, moving and multi-item operations, at every depth split between the two stacks), 201 counted operations for legacy/v0 with tapscript exempt and OP_1..16 uncounted, 4-byte numeric operands (5 for CLTV/CSV), 10,000-byte legacy/v0 scripts at session construction with tapscript exempt, op count restarting at each script switch. Reachability of L-1, L and L+1 is witnessed in every query.',
 'note': ' Element storage bounded to 16 bytes in these queries (limits are about counts and lengths).',
 'technique': 'assume/assert boundary contracts of the real StepScript discharged by CBMC over symbolic depths and counts, with must-fail canaries witnessing both sides of each limit',
 'design_ref': 'DESIGN.md 6 (C10)',
}
