from props import l2_queries as L
from props.common import *
from props import C05 as _C05
QUERIES = [L.REWIND_ROUNDTRIP, L.STEP_FAILED, L.END_OF_SCRIPT, L.CTOR, L.SETUP] + [q for q in _C05.QUERIES if q.name == 'tap_description_m4']
META = {'level': 'other', 'trusted_base': TRUSTED,
 'assumptions': ASSUME_COMMON + [
   "claimed: the position-marker arithmetic only (curr_op_seq): +1 on every successful operation, script-switch and commitment step, unchanged on a failed step and on the finishing step, restored by rewind, 0 in a fresh session",
   "not applicable: the listing text is built inside main() (btcdeb.cpp:270-334) and printed by fn_print with snprintf/iostream code outside the verifier's reach; that the marker index designates the right LINE of that listing is therefore not decided",
 ],
 'explanation': 'marker clauses of the L2 session contracts'}
MANIFEST = {
 'text': 'Marker invariant, session creation and commitment listing: a session created for an empty first script with a script to follow is not finished (the marker has operations to visit); the i-th line of the commitment listing shows the i-th path node of the control block; the position marker is 0 in a fresh session, advances by exactly one on every successful operation / script-switch step, does not move on a failed step or on the finishing step, and is restored by rewind - for every session state. The listing text itself is outside reach.',
 'note': 'The listing builder in main() and fn_print are not applicable (iostream/snprintf code in a 500-line main).',
 'technique': 'assume/assert contracts on the real StepScript(InterpreterEnv&)/RewindScript/InterpreterEnv constructor; CBMC',
 'design_ref': 'DESIGN.md 6 (C12)'}
