from props import l2_queries as L
from props.common import *
from props import C05 as _C05
from vf import Query
from props import units_batch as UB
LISTCOUNT = Query('main_listing_sections', 'harness', UB.unit_listing_count, 'h_listing_sections', defines=['VERIF_ITEM_CAP=8'], unwind=12, timeout=600, object_bits=10,
                  functions=['btcdeb.cpp: main() (fragment: sections and line count of the script listing, from script_ptrs to the allocation of script_lines)'],
                  bounded='scripts of at most 3 operations each (the count loops are operation-generic; GetOp and the P2SH pattern test are per-script oracles)')
QUERIES = [L.REWIND_ROUNDTRIP, L.STEP_FAILED, L.END_OF_SCRIPT, L.CTOR, L.SETUP] + [q for q in _C05.QUERIES if q.name == 'tap_description_m4'] + [LISTCOUNT]
META = {'level': 'other', 'trusted_base': TRUSTED,
 'assumptions': ASSUME_COMMON + [
   "claimed: the position-marker arithmetic only (curr_op_seq): +1 on every successful operation, script-switch and commitment step, unchanged on a failed step and on the finishing step, restored by rewind, 0 in a fresh session",
   "not applicable: the listing text is built inside main() (btcdeb.cpp:270-334) and printed by fn_print with snprintf/iostream code outside the verifier's reach; that the marker index designates the right LINE of that listing is therefore not decided",
 ],
 'explanation': 'marker clauses of the L2 session contracts'}
MANIFEST = {
 'text': 'Listing sections and length (fragment of main()): the listing has the first script, then the scriptPubKey when there is one, then a P2SH section exactly when the session will evaluate a redeem script (P2SH flag set and P2SH pattern), commitment lines only for tapscript; its length is the number of operations of every section plus one header per later section plus the commitment lines. Marker invariant, session creation and commitment listing: a session created for an empty first script with a script to follow is not finished (the marker has operations to visit); the i-th line of the commitment listing shows the i-th path node of the control block; the position marker is 0 in a fresh session, advances by exactly one on every successful operation / script-switch step, does not move on a failed step or on the finishing step, and is restored by rewind - for every session state. The listing text itself is outside reach.',
 'note': 'The TEXT of the listing lines (hex / opcode names, built with snprintf in main()) and fn_print are not applicable; sections and line count are decided (main_listing_sections).',
 'technique': 'assume/assert contracts on the real StepScript(InterpreterEnv&)/RewindScript/InterpreterEnv constructor; CBMC',
 'design_ref': 'DESIGN.md 6 (C12)'}
