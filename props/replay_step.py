"""maps a CBMC counterexample of an h_step query to the arguments of replay/step_replay.cpp"""
import re
def _i(v, d=0):
    if isinstance(v, bool): return int(v)
    if isinstance(v, int): return v
    if isinstance(v, str):
        if v.upper() in ('TRUE', 'FALSE'): return 1 if v.upper() == 'TRUE' else 0
        m = re.search(r'-?\d+', v)
        if m: return int(m.group(0))
    return d
def _item(w):
    n = _i(w.get('n')); a = (w.get('s') or {}).get('a') or []
    b = [(_i(x) & 0xff) for x in a[:n]] + [0] * max(0, n - len(a))
    return ''.join('%02x' % x for x in b) if n else '-'
def _stack(t):
    if not isinstance(t, dict): return 0, ''
    n = _i(t.get('n')); w = t.get('w') or []
    return _i(t.get('base')), ','.join(_item(x) for x in w[:n] if isinstance(x, dict))
def args_step(inp, q):
    if 'opbyte' not in inp or not isinstance(inp.get('st'), dict): return None
    base, items = _stack(inp['st']); abase, aitems = _stack(inp.get('alt', {}))
    # hidden depths / nesting beyond what can be allocated natively are reduced in a way that keeps every relation the rules
    # look at (empty?, all-true?, first false on top?, combined size above the limit?); a reduced input that does not reproduce
    # is reported as "cannot rebuild", never as "the real code is fine"
    reduced = 0
    if base > 1200: base = 1200; reduced = 1
    if abase > 1200: abase = 1200; reduced = 1
    cs_size = _i(inp.get('cs_size0')); cs_ff = _i(inp.get('cs_ff0'), -1)
    if cs_size > 50:
        reduced = 1
        if cs_ff < 0 or cs_ff >= cs_size: cs_size = 5
        else:
            nf = min(cs_ff, 2); cs_size = nf + min(cs_size - cs_ff, 3); cs_ff = nf
    push = inp.get('g_getop_push') or {}
    pn = _i(push.get('n'))
    a = [f"flags={_i(inp.get('flags'))}", f"sv={_i(inp.get('sv'))}", f"op={_i(inp['opbyte'])}", f"getop_ok={_i(inp.get('g_getop_ok'), 1)}",
         f"nop={_i(inp.get('oc'))}", f"ad={_i(inp.get('ad'))}", f"cs_size={cs_size}", f"cs_ff={cs_ff}", f"reduced={reduced}",
         f"base={base}", f"items={items}", f"abase={abase}", f"aitems={aitems}", f"lt={_i(inp.get('g_locktime_ok'))}", f"sq={_i(inp.get('g_sequence_ok'))}", f"pos={_i(inp.get('op_pos'))}"]
    op = _i(inp['opbyte'])
    if (0xac <= op <= 0xaf) or op == 0xba:
        def bl(v): return ','.join(str(_i(x)) for x in (v or []))
        a += [f"ecdsa={bl(inp.get('g_ecdsa_ok'))}", f"fad={bl(inp.get('g_fad_result'))}", f"schnorr_ok={_i(inp.get('g_schnorr_ok'))}", f"schnorr_err={_i(inp.get('g_schnorr_err'))}",
              f"lows={_i(inp.get('g_lows_ok'))}", f"mock={_i(inp.get('g_mock_on'))}"]
        mk, ms = inp.get('g_mock_key') or {}, inp.get('g_mock_sig') or {}
        a += ["mkey=" + (_item(mk) if _i(mk.get('n')) else ''), "msig=" + (_item(ms) if _i(ms.get('n')) else '')]
        ed = inp.get('ed') or {}
        a.append(f"weight={_i(ed.get('m_validation_weight_left'))}")
        for d in q.defines:
            if d.startswith('H_MOCK='): a.append(f"mock={d.split('=')[1]}")
            if d == 'H_SV_TAPROOT': a[1] = 'sv=2'
    cap = 0
    for d in q.defines:
        if d.startswith('VERIF_ITEM_CAP='): cap = int(d.split('=')[1])
    if pn > cap: a.append(f"pushlen={pn}")
    else: a.append("push=" + (_item(push) if pn else ''))
    for d in q.defines:
        if d.startswith('H_ALLOW_DISABLED='): a[5] = f"ad={d.split('=')[1]}"
        if d.startswith('H_SV='): a[1] = f"sv={d.split('=')[1]}"
    return a
REPLAY_STEP = {'driver': 'replay/step_replay.cpp', 'args': args_step, 'premake': ['libbitcoin.a', 'libbitcoin_deb.a'],
               'libs': ['-Wl,--start-group', '{REPO}/libbitcoin_deb.a', '{REPO}/libbitcoin.a', '{REPO}/secp256k1/.libs/libsecp256k1.a', '-Wl,--end-group']}
