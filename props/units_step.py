"""L1 unit: the REAL StepScript(ScriptExecutionEnvironment&, pc, local_script) of script/interpreter.cpp, sliced verbatim,
with the environment types it needs.  Out-of-scope dependencies are stubs (stubs/step_env.h); GetOp is replaced by
its contract (proved at L0 in C01/getscriptop).  Harness text is appended per query (props/harness_step.py)."""
from slice import *

ENV_RULES = [
    (r'^\s*std::optional<uint256> m_output_hash;\n', '    // (std::optional<uint256> m_output_hash; dropped by the slicer: not used by the stepping code)\n', 1),
]

def defs_text():
    out = ['#include "verif_std.h"\n#include "step_env_pre.h"\n']
    out.append(between('script/script.h', r'^// Maximum number of bytes pushable to the stack', r'^// How much weight budget is added to the witness size', include_end=False))
    out.append('static constexpr int64_t VALIDATION_WEIGHT_OFFSET{50};\n')
    out.append(block('script/script.h', r'^enum opcodetype'))
    out.append(between('script/script.h', r'^static const unsigned int MAX_OPCODE = ', r'^std::string GetOpName', include_end=False))
    out.append(block('script/script.h', r'^class CScriptNum$'))
    out.append(block('script/script_error.h', r'^typedef enum ScriptError_t', trailing=' ScriptError;'))
    out.append(block('script/interpreter.h', r'^enum : uint32_t \{'))
    out.append(block('script/interpreter.h', r'^enum class SigVersion'))
    out.append('#include "step_env_mid.h"\n')
    out.append(r_nsdmi(rewrite(block('script/interpreter.h', r'^struct ScriptExecutionData'), ENV_RULES), 'ScriptExecutionData', 4))
    out.append('#include "step_env_checker.h"\n')
    out.append(r_nsdmi(block('debugger/see.h', r'^class ConditionStack'), 'ConditionStack', 2))
    out.append(block('debugger/see.h', r'^struct ScriptExecutionEnvironment'))
    out.append(block('debugger/interpreter.h', r'^inline bool set_success'))
    out.append(block('debugger/interpreter.h', r'^inline bool set_error'))
    out.append(block('debugger/interpreter.h', r'^static inline void _popstack'))
    out.append(between('debugger/interpreter.h', r'^#define popstack\(stack\)', r'^struct TaprootCommitmentEnv', include_end=False))
    out.append(between('script/interpreter.cpp', r'^#define stacktop\(i\)', r'^// popstack is in debugger/interpreter.h', include_end=False))
    return ''.join(out)

def common_rules(text):
    text = rewrite(text, R_ASSERTSTR + R_TYPES + R_LIMITS + [
        (r'class scriptnum_error : public std::runtime_error', 'class scriptnum_error_unused', None),
        (r'explicit scriptnum_error\(const std::string& str\) : std::runtime_error\(str\) \{\}', '', None),
    ])
    return text

STEP_RULES = [
    (r'auto (bsl|bsh) = (btc_\w+_logf);', r'btc_logf_t \1 = \2;', 2),
    (r'auto& script = local_script \? \*local_script : env\.script;', 'CScript* verif_script_p = &env.script; if (local_script) verif_script_p = local_script; CScript& script = *verif_script_p;', 1),
    (r'pushstack\(stack, (\w+) \? vchTrue : vchFalse\);', r'if (\1) pushstack(stack, vchTrue); else pushstack(stack, vchFalse);', 4),
    (r'bn = \(bn1 < bn2 \? bn1 : bn2\);', 'if (bn1 < bn2) bn = bn1; else bn = bn2;', 1),
    (r'bn = \(bn1 > bn2 \? bn1 : bn2\);', 'if (bn1 > bn2) bn = bn1; else bn = bn2;', 1),
    (r'pushstack\(stack, \(num \+ \(success \? 1 : 0\)\)\.getvch\(\)\);', 'if (success) pushstack(stack, (num + 1).getvch()); else pushstack(stack, (num + 0).getvch());', 1),
]

def step_function():
    t = block('script/interpreter.cpp', r'^bool StepScript\(ScriptExecutionEnvironment& env, CScript::const_iterator& pc, CScript\* local_script\)', trailing=None)
    return t

def env_ctor():
    t = block('script/interpreter.cpp', r'^ScriptExecutionEnvironment::ScriptExecutionEnvironment\(', trailing=None, open_at_bol=True)
    return rewrite(t, [(r'const BaseSignatureChecker& checker_in', 'BaseSignatureChecker& checker_in', 1),
                       (r'execdata\{\}', 'execdata()', 1), (r'allow_disabled_opcodes\{false\}', 'allow_disabled_opcodes(false)', 1)])

def cast_to_bool():
    return block('script/interpreter.cpp', r'^bool CastToBool\(const valtype& vch\)', trailing=None)

def check_minimal_push():
    return block('script/script.cpp', r'^bool CheckMinimalPush\(', trailing=None)

def step_extended():
    return block('debugger/interpreter.cpp', r'^bool StepExtended\(ScriptExecutionEnvironment& env, CScript::const_iterator& pc, CScript\* local_script\)', trailing=None)

def case_labels(step_text):
    """every `case OP_x:` label of the opcode switch, in order (used to make sure each opcode belongs to a query group)"""
    return re.findall(r'\bcase (OP_\w+)\s*:', step_text)

def build(with_extended=False, with_checksig=False):
    """text of the unit up to (not including) the harness"""
    t = defs_text()
    t = rewrite(t, [(r'const BaseSignatureChecker& checker_in\);', 'BaseSignatureChecker& checker_in);', 1)])
    body = step_function()
    body = rewrite(body, STEP_RULES)
    t += '#include "step_env_post.h"\n'
    t += cast_to_bool() + check_minimal_push()
    if with_extended:
        ext = step_extended()
        # R-OPCALL: CBMC's C++ front end does not resolve an overloaded binary operator% on class operands; spell the call
        ext = rewrite(ext, [(r'num1 = num1 % num2;', 'num1 = num1.operator%(num2);', 1)])
        t += between('debugger/interpreter.cpp', r'^#define stacktop\(i\)', r'^bool StepExtended', include_end=False).replace('#define stacktop', '#undef stacktop\n#undef altstacktop\n#define stacktop', 1)
        t += ext
    else:
        t += 'bool StepExtended(ScriptExecutionEnvironment& env, CScript::const_iterator& pc, CScript* local_script) { __CPROVER_assert(0, "verif-limit: StepExtended is outside this unit"); return false; }\n'
    if not with_checksig:
        t += '#include "step_env_nosig.h"\n'
    else:
        t += block('script/interpreter.h', r'^enum$', open_at_bol=True)   # SIGHASH_* constants
        t += '#include "step_env_sig.h"\n'
        sig = between('script/interpreter.cpp', r'^bool static IsCompressedOrUncompressedPubKey\(', r'^int FindAndDelete\(CScript& script, const CScript& b\)', include_end=False)
        sig += between('script/interpreter.cpp', r'^static bool EvalChecksigPreTapscript\(', r'^// debugger/interpreter\.cpp', include_end=False)
        # R-LOG: the two diagnostic fprintf statements format the mock key set through a class-template Join<>: dropped
        sig = rewrite(sig, [(r'fprintf\(stderr, "note: pubkey not found in pretend set: %s not in \(%s\)\\n", pub_str\.c_str\(\), Join<[^;]*;', '/* diagnostic fprintf dropped (R-LOG) */;', 2),
                            (r'fprintf\(stderr, "note: pretend signature mismatch: got %s=%s, expected %s=%s\\n",[^;]*;', '/* diagnostic fprintf dropped (R-LOG) */;', 1)])
        # R-STATICORDER: `bool static f(` -> `static bool f(` (CBMC's parser wants the storage class first)
        sig = rewrite(sig, [(r'^bool static ', 'static bool ', '+')])
        sig = r_auto(sig, struct_fields(t, 'ScriptExecutionEnvironment'), 'env', None)
        t += sig
    t += body + env_ctor()
    t = common_rules(t)
    t = r_throw(t, THROW_TABLE)
    fields = struct_fields(t, 'ScriptExecutionEnvironment')
    t = r_auto(t, fields, 'env', None)
    if re.search(r'\bauto&', t):
        raise SliceError("R-AUTO: an `auto&` binding is left in the unit (CBMC mis-deduces these)")
    return t
