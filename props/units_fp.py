"""unit for the amount parser (C13): ParseFixedPoint + ProcessMantissaDigit (util/strencodings.cpp), IsDigit (util/strencodings.h)"""
from slice import *
def unit_fixedpoint():
    t = '#include "verif_std.h"\n#include "sv_env.h"\n'
    t += block('util/strencodings.h', r'^constexpr bool IsDigit\(char c\)', trailing=None)
    t += between('util/strencodings.cpp', r'^static const int64_t UPPER_BOUND = ', r'^/\*\* Helper function for ParseFixedPoint \*/', include_end=False)
    t += block('util/strencodings.cpp', r'^static inline bool ProcessMantissaDigit\(char ch, int64_t &mantissa, int &mantissa_tzeros\)', trailing=None)
    t += block('util/strencodings.cpp', r'^bool ParseFixedPoint\(std::string_view val, int decimals, int64_t \*amount_out\)', trailing=None)
    return t + '\n#include "h_fixedpoint.h"\n'

def unit_parse_transaction():
    t = '#include "verif_std.h"\n#include "ptx_env.h"\n'
    t += block('instance.cpp', r'^bool Instance::parse_transaction\(const char\* txdata, bool parse_amounts\)', trailing=None)
    return t + '\n#include "h_parse_tx.h"\n'
