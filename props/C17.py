from vf import Query
from props import units_step as US
from props import step_groups as G
from props.common import *
from props.replay_step import REPLAY_STEP
import slice as S

def unit_step_ext():
    return US.build(with_extended=True) + '\n#include "h_step.h"\n'

FN = ['debugger/interpreter.cpp: StepExtended', 'script/interpreter.cpp: StepScript (disabled-opcode gate, dispatch to StepExtended)',
      'script/script.h: CScriptNum operator* / % << >> and constructor']
EXT = [  # name, byte, operands k, storage K quick/thorough, extra
 ('cat', 0x7e, 2, 24, 40, ['H_CAT_LIMIT']), ('substr', 0x7f, 3, 24, 40, ['H_CANARY_ERR', 'H_CANARY_EXC']),
 ('left', 0x80, 2, 24, 40, ['H_CANARY_ERR', 'H_CANARY_EXC']), ('right', 0x81, 2, 24, 40, ['H_CANARY_ERR', 'H_CANARY_EXC']),
 ('invert', 0x83, 1, 24, 40, []), ('and', 0x84, 2, 24, 40, ['H_CANARY_ERR']), ('or', 0x85, 2, 24, 40, ['H_CANARY_ERR']), ('xor', 0x86, 2, 24, 40, ['H_CANARY_ERR']),
 ('2mul', 0x8d, 1, 16, 24, ['H_CANARY_EXC']), ('2div', 0x8e, 1, 16, 24, ['H_CANARY_EXC']),
 ('mul', 0x95, 2, 16, 24, ['H_CANARY_EXC']), ('div', 0x96, 2, 16, 24, ['H_CANARY_EXC', 'H_CANARY_ERR']), ('mod', 0x97, 2, 16, 24, ['H_CANARY_EXC', 'H_CANARY_ERR']),
 ('lshift', 0x98, 2, 16, 24, ['H_CANARY_EXC', 'H_CANARY_ERR']), ('rshift', 0x99, 2, 16, 24, ['H_CANARY_EXC', 'H_CANARY_ERR']),
]
def queries():
    qs = []
    def mk(name, opsel, n, w, extra, tier, k, timeout=1500):
        defs = [f'H_OPSEL(op)=({opsel})', f'H_N={n}', f'VERIF_STACK_W={max(w, 1)}', f'VERIF_ITEM_CAP={k}', 'H_AN=0'] + extra
        return Query(name, 'harness', unit_step_ext, 'h_step', defines=defs, unwind=max(k + 2, 34), timeout=timeout, object_bits=12, tier=tier,
                     bounded=f'stack element storage {k} bytes (consensus maximum 520)', functions=FN, replay=REPLAY_STEP)
    HARD = {'mul': (2, 3), 'div': (2, None), 'mod': (2, None)}   # SAT cannot decide full-width multiply/divide equivalence: (quick, thorough) operand bytes of the value query; 3-byte DIV / MOD: > 3000 s, dropped
    for (name, b, k, kq, kt, extra) in EXT:
        if name in HARD:
            # full operand width: verdict, error selection, traps (division by zero, overflow), depth, frame -- not the result bytes
            q = mk(f'ext_{name}_shape', f'op=={b:#x}', k, k, extra + ['H_EXEC=1', 'H_ALLOW_DISABLED=1', 'H_SKIP_TOP_VALUE'], 'quick', kq)
            q.note = 'result value excluded (see *_value)'; qs.append(q)
            for tier, nb in (('quick', HARD[name][0]), ('thorough', HARD[name][1])):
                if nb is None: continue
                q = mk(f'ext_{name}_value{nb}', f'op=={b:#x}', k, k, [e for e in extra if e != 'H_CANARY_EXC'] + ['H_EXEC=1', 'H_ALLOW_DISABLED=1', f'H_ITEM_MAXLEN={nb}'], tier, kq, timeout=3000)
                q.backend = 'kissat'
                q.bounded = f'result VALUE of OP_{name.upper()} decided for operands of at most {nb} bytes only (bounded stand-in: SAT does not decide 64-bit multiply/divide equivalence); verdict, traps and frame are decided at full width by ext_{name}_shape'
                qs.append(q)
        else:
            qs.append(mk(f'ext_{name}', f'op=={b:#x}', k, k, extra + ['H_EXEC=1', 'H_ALLOW_DISABLED=1'], 'quick', kq))
            qs.append(mk(f'ext_{name}_k{kt}', f'op=={b:#x}', k, k, extra + ['H_EXEC=1', 'H_ALLOW_DISABLED=1'], 'thorough', kt))
        for j in range(k):
            qs.append(mk(f'ext_{name}_depth{j}', f'op=={b:#x}', j, max(j, 1), ['H_EXEC=1', 'H_ALLOW_DISABLED=1', 'H_BASE0', 'H_NO_OK', 'H_CANARY_ERR'], 'quick', 16))
    gate = [g for g in G.GROUPS if g[0] == 'disabled_gate'][0]
    qs.append(mk('gate_executed', gate[1], 0, 1, ['H_EXEC=1', 'H_ALLOW_DISABLED=0', 'H_NO_OK', 'H_CANARY_ERR'], 'quick', 16))
    qs.append(mk('gate_unexecuted', gate[1], 0, 1, ['H_EXEC=0', 'H_ALLOW_DISABLED=0', 'H_NO_OK', 'H_CANARY_ERR'], 'quick', 16))
    qs.append(mk('enabled_unexecuted', gate[1], 0, 1, ['H_EXEC=0', 'H_ALLOW_DISABLED=1'], 'quick', 16))
    return qs
QUERIES = queries()
META = {
 'level': 'proof',
 'trusted_base': TRUSTED,
 'assumptions': ASSUME_COMMON + [
   "spec of the 15 opcodes: harness/spec_step.h spec_ext (string/bitwise/signed-integer functions as in Bitcoin 0.3; DIV/MOD truncate toward zero, RSHIFT is floor(a/2^b), shift counts outside 0..63, division by zero, out-of-range offsets and results that do not fit a script number must be script errors)",
   "numeric operands: at most 5 bytes (4 for OP_MUL) as in the code; longer or non-minimal operands must raise the script-number exception",
   "OP_CAT proved for operands whose concatenation fits the modelled element storage",
 ],
 'explanation': 'per-opcode contract of the real StepExtended (through the real StepScript gate and dispatch) against the spec; CBMC built-in checks (division by zero, undefined shifts, signed overflow, assert) are obligations, so a trap is a failed obligation',
}
MANIFEST = {
 'text': 'Deductive check, per re-enabled opcode and for every stack depth, flag set and script version, that the real StepExtended computes the function the opcode name denotes on script values, raises a script error (never a trap: division by zero, undefined shift, signed overflow and assert are obligations) on invalid operands, and that without the option each of the 15 opcodes fails as disabled in executed and unexecuted branches alike.',
 'note': 'Trusted: CBMC 6.11, slicer, stub containers, spec_ext in harness/spec_step.h. Element storage bounded (16/24/40 bytes; string ops are length-generic code, numeric ops only read <= 5 bytes).',
 'technique': 'assume/assert function contract of the real StepExtended/StepScript per opcode, discharged by CBMC with built-in trap checks; callee GetOp replaced by its contract',
 'design_ref': 'DESIGN.md 6 (C17)',
}
