"""unit for C09: the svf flag table, svf_get_flag, svf_parse_flags of btcdeb.cpp and STANDARD_SCRIPT_VERIFY_FLAGS of policy/policy.h"""
from slice import *

def unit_svf():
    t = '#include "verif_std.h"\n#include "svf_env.h"\n'
    t += block('script/interpreter.h', r'^enum : uint32_t \{')
    t += between('policy/policy.h', r'^static const unsigned int MANDATORY_SCRIPT_VERIFY_FLAGS', r'^// \}', include_end=False)
    std = between('policy/policy.h', r'^static constexpr unsigned int STANDARD_SCRIPT_VERIFY_FLAGS\{', r'^#endif // BITCOIN_POLICY_POLICY_H')
    # R-BRACEINIT: `constexpr unsigned int X{expr};` -> `const unsigned int X = (expr);`
    std = rewrite(std, [(r'static constexpr unsigned int STANDARD_SCRIPT_VERIFY_FLAGS\{', 'static const unsigned int STANDARD_SCRIPT_VERIFY_FLAGS = (', 1), (r'SCRIPT_VERIFY_DISCOURAGE_UPGRADABLE_PUBKEYTYPE\};', 'SCRIPT_VERIFY_DISCOURAGE_UPGRADABLE_PUBKEYTYPE);', 1)])
    t += std
    t += block('btcdeb.cpp', r'^struct script_verify_flag')
    tab = block('btcdeb.cpp', r'^static const std::vector<script_verify_flag> svf \{')
    # R-SVFTABLE: a std::vector / array of class objects with constructor-call initialisers is outside the front end.
    # The table is re-emitted mechanically as an indexed accessor: same macro, same entries, same order.
    m = re.search(r'#define _\(v\) (.*)\n', tab)
    entries = re.findall(r'^\s*_\((\w+)\),\s*$', tab, re.M)
    body = re.sub(r'//[^\n]*', '', tab)
    n_lines = len([l for l in body.split('\n') if l.strip() and not l.strip().startswith(('static const', '#define', '#undef', '};'))])
    if not m or not entries or n_lines != len(entries):
        raise SliceError(f"R-SVFTABLE: table shape not recognised ({len(entries)} entries, {n_lines} body lines)")
    t += '// ---- R-SVFTABLE re-emission of the table sliced above (btcdeb.cpp svf)\n#define _(v) ' + m.group(1) + '\n'
    t += 'static const size_t svf_count = %d;\nstatic script_verify_flag svf_get(size_t k) {\n' % len(entries)
    for k, e in enumerate(entries[:-1]):
        t += f'    if (k == {k}) return _({e});\n'
    t += f'    return _({entries[-1]});\n}}\n#undef _\n'
    g = block('btcdeb.cpp', r'^static const unsigned int svf_get_flag\(', trailing=None)
    # R-RANGEFOR: `for (const auto& i : svf) STMT` -> index loop over the re-emitted table, same order, same statement
    g = rewrite(g, [(r'for \(const auto& i : svf\) ([^\n]*)\n', r'for (size_t verif_k = 0; verif_k < svf_count; ++verif_k) { const script_verify_flag i = svf_get(verif_k); \1 }\n', 1)])
    t += g
    p = block('btcdeb.cpp', r'^static unsigned int svf_parse_flags\(', trailing=None)
    p = rewrite(p, [(r'exit\(1\);', 'VERIF_EXIT(1);', '+')])
    t += p
    t += '\n#include "h_svf.h"\n'
    return t
