"""unit for C09: the svf flag table, svf_get_flag, svf_parse_flags of btcdeb.cpp and STANDARD_SCRIPT_VERIFY_FLAGS of policy/policy.h"""
from slice import *

def svf_prefix(env):
    t = '#include "verif_std.h"\n#include "' + env + '"\n'
    t += block('script/interpreter.h', r'^enum : uint32_t \{')
    t += between('policy/policy.h', r'^static const unsigned int MANDATORY_SCRIPT_VERIFY_FLAGS', r'^// \}', include_end=False)
    std = between('policy/policy.h', r'^static constexpr unsigned int STANDARD_SCRIPT_VERIFY_FLAGS\{', r'^#endif // BITCOIN_POLICY_POLICY_H')
    # R-BRACEINIT: `constexpr unsigned int X{expr};` -> `const unsigned int X = (expr);`
    std = rewrite(std, [(r'static constexpr unsigned int STANDARD_SCRIPT_VERIFY_FLAGS\{', 'static const unsigned int STANDARD_SCRIPT_VERIFY_FLAGS = (', 1), (r'SCRIPT_VERIFY_DISCOURAGE_UPGRADABLE_PUBKEYTYPE\};', 'SCRIPT_VERIFY_DISCOURAGE_UPGRADABLE_PUBKEYTYPE);', 1)])
    t += std
    t += block('btcdeb.cpp', r'^struct script_verify_flag')
    tab = block('btcdeb.cpp', r'^static const std::vector<script_verify_flag> svf \{')
    # R-SVFTABLE: a std::vector / array of class objects with constructor-call initialisers is outside the front end.
    # The table is re-emitted mechanically as an indexed accessor: same macro, same entries, same order.
    m = re.search(r'#define _\(v\) (.*)\n', tab)
    entries = re.findall(r'^\s*_\((\w+)\),\s*$', tab, re.M)
    body = re.sub(r'//[^\n]*', '', tab)
    n_lines = len([l for l in body.split('\n') if l.strip() and not l.strip().startswith(('static const', '#define', '#undef', '};'))])
    if not m or not entries or n_lines != len(entries):
        raise SliceError(f"R-SVFTABLE: table shape not recognised ({len(entries)} entries, {n_lines} body lines)")
    t += '// ---- R-SVFTABLE re-emission of the table sliced above (btcdeb.cpp svf)\n#define _(v) ' + m.group(1) + '\n'
    t += 'static const size_t svf_count = %d;\nstatic script_verify_flag svf_get(size_t k) {\n' % len(entries)
    for k, e in enumerate(entries[:-1]):
        t += f'    if (k == {k}) return _({e});\n'
    t += f'    return _({entries[-1]});\n}}\n#undef _\n'
    return t

def unit_svf():
    t = svf_prefix('svf_env.h')
    g = block('btcdeb.cpp', r'^static const unsigned int svf_get_flag\(', trailing=None)
    # R-RANGEFOR: `for (const auto& i : svf) STMT` -> index loop over the re-emitted table, same order, same statement
    g = rewrite(g, [(r'for \(const auto& i : svf\) ([^\n]*)\n', r'for (size_t verif_k = 0; verif_k < svf_count; ++verif_k) { const script_verify_flag i = svf_get(verif_k); \1 }\n', 1)])
    t += g
    p = block('btcdeb.cpp', r'^static unsigned int svf_parse_flags\(', trailing=None)
    p = rewrite(p, [(r'exit\(1\);', 'VERIF_EXIT(1);', '+')])
    t += p
    t += '\n#include "h_svf.h"\n'
    return t

def unit_svf_loop():
    """svf_parse_flags as an inductive loop contract: the loop of the real function is cut mechanically into
    (declarations, condition, body, statement after the loop); one iteration from an ARBITRARY loop state is then a function
    under contract (harness/h_svf_loop.h).  svf_get_flag is replaced by its contract (proved by svf_table / svf_unknown)."""
    t = '#include "verif_std.h"\n#include "svf_loop_env.h"\n'
    p = block('btcdeb.cpp', r'^static unsigned int svf_parse_flags\(', trailing=None)
    m = re.match(r'// ---- [^\n]*\nstatic unsigned int svf_parse_flags\(unsigned int in_flags, const char\* mod\) \{\n((?:    [^\n]*;\n)+)    for \(size_t i = 0; ([^;\n]+); i\+\+\) \{\n', p)
    if not m:
        raise SliceError("R-LOOPCUT: head of svf_parse_flags (signature, local declarations, loop header) not recognised")
    decls, cond = m.group(1), m.group(2)
    body_start = m.end() - 2                      # the '{' of the for statement
    depth = 0; k = body_start
    while True:
        ch = p[k]
        if ch == '{': depth += 1
        elif ch == '}':
            depth -= 1
            if depth == 0: break
        k += 1
    body = p[body_start:k + 1]
    tail = p[k + 1:].strip()
    if tail != 'return in_flags;\n}'.strip() and re.sub(r'\s+', ' ', tail) != 'return in_flags; }':
        raise SliceError(f"R-LOOPCUT: the statement after the loop is not `return in_flags;` ({tail[:60]!r})")
    if re.search(r'\b(break|continue|return|goto)\b', body):
        raise SliceError("R-LOOPCUT: the loop body leaves the loop other than by falling through or exit()")
    body = rewrite(body, [(r'exit\(1\);', 'VERIF_EXIT(1);', '+')])
    t += '// ---- R-LOOPCUT of svf_parse_flags (btcdeb.cpp): parameters and locals become file-scope objects, the loop condition and\n'
    t += '// the loop body become functions of the loop counter; every token of declarations, condition and body is the sliced text\n'
    t += 'static unsigned int in_flags; static verif_cstr_view mod;\n' + decls
    t += 'static bool verif_loop_cond(size_t i) { return ' + cond + '; }\n'
    t += 'static void verif_loop_body(size_t i) ' + body + '\n'
    t += '\n#include "h_svf_loop.h"\n'
    return t

def unit_svf_string():
    """svf_string (the flag listing of --default-flags and -v) with std::string modelled as a rope of pieces (svf_rope_env.h)"""
    t = svf_prefix('svf_rope_env.h')
    g = block('btcdeb.cpp', r'^static const std::string svf_string\(uint32_t flags, std::string separator = " "\) \{', trailing=None)
    # R-RANGEFOR: `for (const auto& i : svf) {` -> index loop over the re-emitted table, same order
    g = rewrite(g, [(r'for \(const auto& i : svf\) \{', 'for (size_t verif_k = 0; verif_k < svf_count; ++verif_k) { const script_verify_flag i = svf_get(verif_k);', 1)])
    # R-TERN: conditional expression on class objects -> if / return (same order of evaluation, same values)
    g = rewrite(g, [(r'return s\.size\(\) \? s\.substr\(separator\.size\(\)\) : "\(none\)";', 'if (s.size()) return s.substr(separator.size()); return "(none)";', 1)])
    t += g
    return t + '\n#include "h_svf_string.h"\n'
