from vf import Query
from props import units_leaf as ULF
from props.common import *
FN = ['serialize.h: WriteCompactSize', 'serialize.h: ReadCompactSize', 'serialize.h: GetSizeOfCompactSize', 'serialize.h: MAX_SIZE']
QUERIES = [Query('cs_write', 'harness', ULF.unit_compactsize, 'h_cs_write', unwind=20, timeout=600, functions=FN),
           Query('cs_read', 'harness', ULF.unit_compactsize, 'h_cs_read', unwind=20, timeout=600, functions=FN)]
META = {'level': 'proof', 'trusted_base': TRUSTED + ['stubs/ser_env.h: byte-buffer stream and little-endian ser_read/writedataN'],
 'assumptions': ASSUME_COMMON + [
   "claimed: the compact-size codec leaves only (every uint64; every byte string of up to 12 bytes as input of the decoder)",
   "not applicable: UnserializeTransaction / SerializeTransaction round trip, txid (double SHA-256), witness flag handling - the vector / prevector / CDataStream / SERIALIZE_METHODS template machinery is outside the C++ front end; ParseFixedPoint and parse_tx (std::string_view, repeated multiplication by ten) likewise",
 ],
 'explanation': 'contracts of the real WriteCompactSize / ReadCompactSize / GetSizeOfCompactSize bodies over a byte-buffer stream'}
MANIFEST = {
 'text': 'Codec leaves only: for every uint64 the real WriteCompactSize emits the 1/3/5/9-byte form by magnitude with little-endian payload, GetSizeOfCompactSize agrees, and ReadCompactSize returns the value consuming exactly those bytes; for every input string the decoder rejects truncated, non-canonical (not shortest) and over-MAX_SIZE encodings and never partially accepts them.',
 'note': 'Transaction (de)serialisation, txid and amount parsing are not applicable (template serialization framework, hashing, std::string_view arithmetic).',
 'technique': 'assume/assert contracts on the real compact-size function templates over a stub stream; CBMC, full 64-bit domain',
 'design_ref': 'DESIGN.md 6 (C13)'}
