from vf import Query
from props import units_leaf as ULF
from props.common import *
FN = ['serialize.h: WriteCompactSize', 'serialize.h: ReadCompactSize', 'serialize.h: GetSizeOfCompactSize', 'serialize.h: MAX_SIZE']
QUERIES = [Query('cs_write', 'harness', ULF.unit_compactsize, 'h_cs_write', unwind=20, timeout=600, functions=FN),
           Query('cs_read', 'harness', ULF.unit_compactsize, 'h_cs_read', unwind=20, timeout=600, functions=FN)]
from props import units_fp as UFP
FP = ['util/strencodings.cpp: ParseFixedPoint', 'util/strencodings.cpp: ProcessMantissaDigit', 'util/strencodings.h: IsDigit']
QUERIES.append(Query('fixedpoint_reject', 'harness', UFP.unit_fixedpoint, 'h_fixedpoint_reject', unwind=24, timeout=600, functions=FP))
for (a, b, tier) in ((1, 0, 'quick'), (1, 1, 'quick'), (2, 2, 'thorough'), (3, 2, 'thorough'), (1, 8, 'thorough')):
    QUERIES.append(Query(f'fixedpoint_{a}_{b}', 'harness', UFP.unit_fixedpoint, 'h_fixedpoint', defines=[f'H_PF_INT={a}', f'H_PF_FRAC={b}'], unwind=24, timeout=6000, tier=tier, backend='kissat', functions=FP,
                         bounded=f'amount strings with exactly {a} integer and {b} fractional digits (digits symbolic, optional sign); SAT cost grows steeply with the number of digits'))
for (l1, l2) in ((3, 18), (18, 5), (1, 1)):
    QUERIES.append(Query(f'parse_tx_amounts_{l1}_{l2}', 'harness', UFP.unit_parse_transaction, 'h_parse_tx_amounts', defines=[f'H_PT_L1={l1}', f'H_PT_L2={l2}'], unwind=44, timeout=900,
                         functions=['instance.cpp: Instance::parse_transaction (amount list)'], bounded=f'two amounts of {l1} and {l2} characters (characters symbolic)'))
META = {'level': 'proof', 'trusted_base': TRUSTED + ['stubs/ser_env.h: byte-buffer stream and little-endian ser_read/writedataN'],
 'assumptions': ASSUME_COMMON + [
   "claimed: the compact-size codec (every uint64; every byte string of up to 12 bytes as input of the decoder) and the amount parser ParseFixedPoint(.., 8, ..) for the stated digit counts plus its rejection of malformed forms; the amount-list front end of Instance::parse_transaction (each amount substring reaches the parser unaltered, the transaction parser gets the text after the colon, zero padding to the input count) with the amount and transaction parsers as oracles",
   "not applicable: UnserializeTransaction / SerializeTransaction round trip, txid (double SHA-256), witness flag handling - the vector / prevector / CDataStream / SERIALIZE_METHODS template machinery is outside the C++ front end; parse_tx / parse_transaction (strndup, std::string) likewise",
 ],
 'explanation': 'contracts of the real WriteCompactSize / ReadCompactSize / GetSizeOfCompactSize bodies over a byte-buffer stream'}
MANIFEST = {
 'text': 'Codec and amount leaves only: for every uint64 the real WriteCompactSize emits the 1/3/5/9-byte form by magnitude with little-endian payload, GetSizeOfCompactSize agrees, and ReadCompactSize returns the value consuming exactly those bytes; for every input string the decoder rejects truncated, non-canonical (not shortest) and over-MAX_SIZE encodings and never partially accepts them. ParseFixedPoint converts decimal amounts to satoshis exactly for the stated digit counts and rejects malformed forms; the amount list of --tx hands every amount substring to it unaltered.',
 'note': 'Transaction (de)serialisation, txid and amount parsing are not applicable (template serialization framework, hashing, std::string_view arithmetic).',
 'technique': 'assume/assert contracts on the real compact-size function templates over a stub stream; CBMC, full 64-bit domain',
 'design_ref': 'DESIGN.md 6 (C13)'}
