from props import C01, C02, C05, C07, C09, C13, C17, C03
from props import l2_queries as L
from props.common import *
from vf import Query
from props import units_batch as UB
from props import C08 as _C08
CFGBUF = Query('cfg_arg_buffers', 'harness', UB.unit_cfg_release, 'h_cfg_buffers', defines=['VERIF_STACK_W=4', 'VERIF_ITEM_CAP=8'], unwind=10, timeout=600, object_bits=10,
               functions=['instance.cpp: Instance::configure_tx_txin (fragments: copying the remaining witness items, releasing the copies)'], bounded='at most 4 witness items')
ADDRSPK = Query('value_addr_to_spk', 'harness', UB.unit_addr_to_spk, 'h_addr_to_spk', defines=['VERIF_ITEM_CAP=40', 'VERIF_SCRIPT_CAP=40'], unwind=44, timeout=600, object_bits=10,
                functions=['value.h: Value::do_addr_to_spk (base58check decoder as oracle)'], bounded='decoded payloads of at most 24 bytes')
BECH = Query('value_bech32dec_head', 'harness', UB.unit_bech32dec_head, 'h_bech32dec_head', defines=['VERIF_ITEM_CAP=16'], unwind=20, timeout=600, object_bits=10,
             functions=['value.h: Value::do_bech32dec (first part: decoding and the read of the witness version symbol; bech32::Decode as oracle)'])
CFGP2SH = Query('cfg_p2sh_embedded', 'harness', UB.unit_cfg_p2sh_embedded, 'h_cfg_p2sh_embedded', defines=['VERIF_ITEM_CAP=40'], unwind=44, timeout=600, object_bits=10,
                functions=['instance.cpp: Instance::configure_tx_txin (P2SH-embedded branch of the witness part: program extraction and HASH160 check; GetOp and HASH160 as oracles)'])
VSIG = Query('value_verify_sig_args', 'harness', UB.unit_verify_sig_head, 'h_verify_sig_head', defines=['VERIF_STACK_W=4', 'VERIF_ITEM_CAP=70'], unwind=74, timeout=600, object_bits=10,
             functions=['value.cpp: Value::verify_sig (argument checks up to the construction of the sighash; extract_values as oracle)'])
HTSTR = Query('log_hashtype_text', 'harness', UB.unit_hashtype_str, 'h_hashtype_str', defines=['VERIF_ITEM_CAP=8'], unwind=104, timeout=900, object_bits=10, extra_cbmc=['--max-field-sensitivity-array-size', '120'],
              functions=['debugger/interpreter.h: hashtype_str (hash-type text of the signing log in CheckECDSASignature)'])
JACOBI = Query('value_jacobi_args', 'harness', UB.unit_jacobi_head, 'h_jacobi_head', defines=['VERIF_STACK_W=3', 'VERIF_ITEM_CAP=34'], unwind=40, timeout=600, object_bits=10,
               functions=['value.cpp: Value::do_jacobi_symbol (argument handling up to the first reduction; extract_values as oracle, 256-bit numbers by zero / non-zero)'])
LISTING = Query('main_listing_line', 'harness', UB.unit_listing_line, 'h_listing_line', defines=['VERIF_ITEM_CAP=8'], unwind=12, timeout=600, object_bits=10,
                functions=['btcdeb.cpp: main() (fragment: one line of the script listing, body of the `while (script->GetOp(...))` loop)'], bounded='pushes of at most 520 bytes (by length), opcode names of at most 40 characters')
import re
# every query below is run with CBMC's memory-safety and arithmetic checks; what this property claims is ONLY those
# code-derived obligations (bounds, pointer validity, division by zero, signed overflow, undefined shifts, container preconditions,
# assert() in btcdeb code, exception escape) of the functions under contract - not the whole-program, all-argv statement
def pick(mod, pat):
    return [q for q in mod.QUERIES if q.tier == 'quick' and re.match(pat, q.name)]
QUERIES = (pick(C01, r'(step_push|step_unexecuted|step_3dup_6f|step_tuck_7d|step_tuck_depth1|step_2rot_71|step_pickroll_7a_n3|step_within_a5|step_hash_a9|leaf_getscriptop|leaf_getscriptop_len|leaf_hasvalidops|leaf_hasvalidops_loop_step|leaf_casttobool|leaf_checkminimalpush)$')
           + pick(C17, r'(ext_substr|ext_left|ext_right|ext_cat|ext_div_shape|ext_mod_shape|ext_mul_shape|ext_lshift|ext_rshift|ext_2div)$')
           + pick(C02, r'(sig_checksig_pre|sig_checksig_tapscript|sig_multisig_1of0|sig_multisig_counts)$')
           + pick(C05, r'tap_') + pick(C07, r'(enc_data|tokenise_n7)') + pick(C09, r'(svf_table|svf_parse1_12|svf_reject_15_k1|svf_long_128|svf_long_150|svf_loop_step)$') + pick(C13, r'cs_') + pick(C03, r'(parse_input|cfg_taproot)$')
           + [L.REWIND_ROUNDTRIP, L.REWIND_REFUSED, L.END_OF_SCRIPT, L.CTOR, L.CONTINUE, L.INSTANCE_STEP, L.EVAL, L.COMMITMENT, L.SETUP, LISTING, CFGBUF, ADDRSPK, BECH, CFGP2SH, VSIG, HTSTR, JACOBI, _C08.STDIN, _C08.STDIN_LONG, _C08.BATCH])
_seen = set(); QUERIES = [q for q in QUERIES if not (q.name in _seen or _seen.add(q.name))]
META = {'level': 'proof', 'trusted_base': TRUSTED,
 'assumptions': ASSUME_COMMON + [
   "function-level claim: absence of undefined behaviour and of escaping exceptions in the functions under contract, for all inputs admitted by their (type-invariant) preconditions; it is NOT the whole-program all-argv/stdin claim of the property",
   "not covered: main() of btcdeb/btcc/tap, cliargs.h, kerl, Value's string parsers and transforms (do_addr_to_spk, do_bech32dec, ...), configure_tx_txin, SignatureHash*, transaction deserialisation - the spots the property's anchor lists (unchecked vout index, strdup/delete mismatch, erase on empty, bech[0] on empty, uint160 size assert, svf_parse_flags buf[128]) are in that uncovered code, except the last one",
 ],
 'explanation': 'CBMC built-in checks (--bounds-check --pointer-check --div-by-zero-check --signed-overflow-check --undefined-shift-check --pointer-primitive-check), std::vector preconditions of the stub containers, assert() statements of the sliced code and exception-escape obligations, on a cross-section of every unit under contract'}
MANIFEST = {
 'text': 'Function-level only: every bounds, pointer, division-by-zero, signed-overflow, undefined-shift, container-precondition, assert() and exception-escape obligation generated for the sliced interpreter step (all opcode classes), the re-enabled opcodes, the signature opcodes, the session layer, the taproot commitment, the script assembler, the decoders, the flag parser and the compact-size codec is discharged for all inputs of those functions.',
 'note': 'Not the whole-program claim: main(), argument parsing, Value transforms, configure_tx_txin, SignatureHash and deserialisation are outside reach (DESIGN.md 8).',
 'technique': 'CBMC safety instrumentation on the sliced real functions under their contracts (same queries as the functional properties)',
 'design_ref': 'DESIGN.md 6 (C15)'}
