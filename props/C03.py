from vf import Query
from props import units_leaf as ULF
from props import l2_queries as L
from props.common import *
from props import units_main as UM
from props import units_batch as UB
CFG_P2SH = Query('cfg_p2sh_embedded', 'harness', UB.unit_cfg_p2sh_embedded, 'h_cfg_p2sh_embedded', defines=['VERIF_ITEM_CAP=40'], unwind=44, timeout=600, object_bits=10,
                 functions=['instance.cpp: Instance::configure_tx_txin (P2SH-embedded branch of the witness part: program extraction and HASH160 check; GetOp and HASH160 as oracles)'])
CFG_TAPROOT = Query('cfg_taproot', 'harness', UM.unit_cfg_taproot, 'h_cfg_taproot', defines=['VERIF_STACK_W=5', 'VERIF_ITEM_CAP=40', 'VERIF_SCRIPT_CAP=40'], unwind=44, timeout=1800, object_bits=10,
                    functions=['instance.cpp: Instance::configure_tx_txin (witness-v1 branch: annex, key path / script path, control-block size rule, leaf version, tapscript budget, initial stack)'],
                    bounded='witness stacks of at most 5 items; item bytes beyond 40 modelled by length')
QUERIES = [Query('parse_input', 'harness', ULF.unit_parse_input, 'h_parse_input', unwind=40, timeout=900,
                 functions=['instance.cpp: Instance::parse_input_transaction'], bounded='spending transactions with at most 3 inputs (the selection loop is index-generic)'),
           Query('script_patterns', 'harness', ULF.unit_decode, 'h_script_patterns', defines=['VERIF_ITEM_CAP=44', 'VERIF_SCRIPT_CAP=44', 'H_SCRIPT_N=44'], unwind=48, timeout=900, object_bits=10,
                 functions=['script/script.cpp: CScript::IsPayToScriptHash', 'script/script.cpp: CScript::IsPayToWitnessScriptHash', 'script/script.cpp: CScript::IsWitnessProgram']),
           CFG_TAPROOT, CFG_P2SH, Query('cfg_legacy', 'harness', UM.unit_cfg_taproot, 'h_cfg_legacy', defines=['VERIF_STACK_W=5', 'VERIF_ITEM_CAP=40', 'VERIF_SCRIPT_CAP=40'], unwind=44, timeout=900, object_bits=10, functions=['instance.cpp: Instance::configure_tx_txin (legacy branch)']), L.SETUP, L.END_OF_SCRIPT, L.CTOR, L.COMMITMENT]
META = {'level': 'proof', 'trusted_base': TRUSTED + ['stubs/tx_env.h: transactions as input lists; parse_tx / GetHash as oracles'],
 'assumptions': ASSUME_COMMON + [
   "claimed fragment: (1) input selection of Instance::parse_input_transaction, (2) the output-type patterns the setup relies on (P2SH, P2WSH, witness program: version and program extraction, all scripts up to 44 bytes), (3) the session phase machine - scriptSig result -> scriptPubKey -> P2SH redeem script (stack save / restore, op-count and opcode-position restart, P2SH armed exactly with the flag and the pattern) and the commitment phase of tapscript sessions",
   "Instance::configure_tx_txin: the witness-v1 branch (annex, key path / script path, control-block size rule, leaf version, tapscript budget, initial stack) and the legacy branch are under contract as functions of the objects they use (R-PARTIAL); SHA-256 of the annex, GetSerializeSize of the witness and the construction of the commitment checker are ghost-logged oracles. Instance::setup_environment: second half (session creation and hand-over) under contract",
   "not applicable: the witness-v0 part of configure_tx_txin (P2WPKH / P2WSH / P2SH-wrapped recognition over Value, HexStr, strdup and real hashing), the first half of setup_environment (transaction signature checker) and the end-to-end 'valid exactly when consensus says so' claim, which also needs the digest/crypto half of C02 and transaction parsing",
 ],
 'explanation': 'contracts on the real parse_input_transaction and on the end-of-script branches of StepScript(InterpreterEnv&) against the order prescribed by VerifyScript'}
MANIFEST = {
 'text': 'Fragment: (0) taproot set-up: for every witness stack (up to 5 items) and program the witness-v1 branch of configure_tx_txin follows BIP341/342 - 32-byte program and non-empty witness or refusal; annex detected, hashed and removed; key path: script <program> OP_CHECKSIG, version TAPROOT, initial stack = the one remaining item; script path: control block 33+32m bytes (m <= 128) or refusal, commitment checker built for exactly (control, program, leaf script), leaf version 0xc0 -> TAPSCRIPT with the budget = serialized size of the whole witness + 50 and the items below the script as initial stack; legacy inputs run scriptSig then scriptPubKey under the BASE rules; the created session is finished at once only when there is nothing to execute. (1) for every spending transaction (up to 3 inputs) and funding transaction identifier, the debugger uses the first input that spends the funding transaction, or the explicitly selected one exactly when it is in range and references it, and takes the output index from THAT input; otherwise it refuses. (2) For every session state at the end of a script, the transitions scriptSig -> scriptPubKey -> P2SH redeem script / finished follow the order script validation prescribes: EVAL_FALSE on empty/false results, the saved scriptSig stack is restored and the redeem script popped from it, counters restart, P2SH evaluation is armed exactly when the flag is set and the scriptPubKey has the P2SH pattern.',
 'note': 'The witness-v0 part of configure_tx_txin (P2WPKH / P2WSH / P2SH-wrapped recognition and hash checks) and the end-to-end validity claim are not applicable.',
 'technique': 'assume/assert contracts on the real parse_input_transaction and session transitions; CBMC',
 'design_ref': 'DESIGN.md 6 (C03)'}
