from vf import Query
from props import units_leaf as ULF
from props import l2_queries as L
from props.common import *
QUERIES = [Query('parse_input', 'harness', ULF.unit_parse_input, 'h_parse_input', unwind=40, timeout=900,
                 functions=['instance.cpp: Instance::parse_input_transaction'], bounded='spending transactions with at most 3 inputs (the selection loop is index-generic)'),
           Query('script_patterns', 'harness', ULF.unit_decode, 'h_script_patterns', defines=['VERIF_ITEM_CAP=44', 'VERIF_SCRIPT_CAP=44', 'H_SCRIPT_N=44'], unwind=48, timeout=900, object_bits=10,
                 functions=['script/script.cpp: CScript::IsPayToScriptHash', 'script/script.cpp: CScript::IsPayToWitnessScriptHash', 'script/script.cpp: CScript::IsWitnessProgram']),
           L.END_OF_SCRIPT, L.CTOR, L.COMMITMENT]
META = {'level': 'proof', 'trusted_base': TRUSTED + ['stubs/tx_env.h: transactions as input lists; parse_tx / GetHash as oracles'],
 'assumptions': ASSUME_COMMON + [
   "claimed fragment: (1) input selection of Instance::parse_input_transaction, (2) the output-type patterns the setup relies on (P2SH, P2WSH, witness program: version and program extraction, all scripts up to 44 bytes), (3) the session phase machine - scriptSig result -> scriptPubKey -> P2SH redeem script (stack save / restore, op-count and opcode-position restart, P2SH armed exactly with the flag and the pattern) and the commitment phase of tapscript sessions",
   "not applicable: Instance::configure_tx_txin (290 lines over Value, HexStr, strdup, hashing: witness-program recognition, hash checks, preamble scripts, annex) and the end-to-end 'valid exactly when consensus says so' claim, which also needs the digest/crypto half of C02 and transaction parsing",
 ],
 'explanation': 'contracts on the real parse_input_transaction and on the end-of-script branches of StepScript(InterpreterEnv&) against the order prescribed by VerifyScript'}
MANIFEST = {
 'text': 'Fragment: (1) for every spending transaction (up to 3 inputs) and funding transaction identifier, the debugger uses the first input that spends the funding transaction, or the explicitly selected one exactly when it is in range and references it, and takes the output index from THAT input; otherwise it refuses. (2) For every session state at the end of a script, the transitions scriptSig -> scriptPubKey -> P2SH redeem script / finished follow the order script validation prescribes: EVAL_FALSE on empty/false results, the saved scriptSig stack is restored and the redeem script popped from it, counters restart, P2SH evaluation is armed exactly when the flag is set and the scriptPubKey has the P2SH pattern.',
 'note': 'configure_tx_txin (output-type recognition, hash checks, annex, control block) and the end-to-end validity claim are not applicable.',
 'technique': 'assume/assert contracts on the real parse_input_transaction and session transitions; CBMC',
 'design_ref': 'DESIGN.md 6 (C03)'}
