from vf import Query
from props import units_leaf as U
from props.common import *

def _ints(inp, q):
    return None

def args_serialize(inp, q):
    if 'v' not in inp: return None
    return ['serialize', inp['v']]
def args_decode(inp, q):
    if 'in' not in inp or 'len' not in inp: return None
    b = inp['in'] if isinstance(inp['in'], list) else []
    b = [(x or 0) & 0xff for x in b] + [0] * 8
    return ['decode', ''.join('%02x' % x for x in b[:8]), inp.get('len', 0), 1 if inp.get('require_minimal', 0) else 0, inp.get('maxlen', 4)]
def args_getint(inp, q):
    return ['getint', inp['v']] if 'v' in inp else None
def args_roundtrip(inp, q):
    return ['roundtrip', inp['v'], 1 if inp.get('rm') else 0] if 'v' in inp else None

RP = lambda f: {'driver': 'replay/scriptnum_replay.cpp', 'args': f}
F = ['script/script.h: CScriptNum::serialize', 'script/script.h: CScriptNum::CScriptNum(vch,fRequireMinimal,nMaxNumSize)', 'script/script.h: CScriptNum::set_vch', 'script/script.h: CScriptNum::getint', 'script/script.h: CScriptNum::getvch']
QUERIES = [
 Query('serialize', 'dfcc', U.unit_scriptnum, 'h_serialize', enforce='w_scriptnum_serialize', cfile='contracts/scriptnum.c', defines=['VERIF_ITEM_CAP=16'], unwind=20, timeout=300, replay=RP(args_serialize), functions=F[:1]),
 Query('decode', 'dfcc', U.unit_scriptnum, 'h_decode', enforce='w_scriptnum_decode', cfile='contracts/scriptnum.c', defines=['VERIF_ITEM_CAP=16'], unwind=20, timeout=300, replay=RP(args_decode), functions=F[1:3]),
 Query('getint', 'dfcc', U.unit_scriptnum, 'h_getint', enforce='w_scriptnum_getint', cfile='contracts/scriptnum.c', defines=['VERIF_ITEM_CAP=16'], unwind=20, timeout=300, replay=RP(args_getint), functions=F[3:4]),
 Query('roundtrip', 'dfcc', U.unit_scriptnum, 'h_roundtrip', enforce='w_scriptnum_roundtrip', cfile='contracts/scriptnum.c', defines=['VERIF_ITEM_CAP=16'], unwind=20, timeout=300, replay=RP(args_roundtrip), functions=[F[0], F[1], F[2], F[4]]),
]
from props import units_enc as UE
QUERIES += [
 Query('value_int', 'harness', UE.unit_enc, 'h_value_int', defines=['VERIF_ITEM_CAP=16', 'VERIF_SCRIPT_CAP=26'], unwind=30, timeout=600, object_bits=10, functions=['value.h: Value::int_value', 'value.h: Value::data_value (T_INT)']),
 Query('lemma_unique', 'c', None, 'h_lemma_unique', cfile='contracts/lemma_scriptnum.c', unwind=12, timeout=600),
 Query('lemma_range', 'c', None, 'h_lemma_range', cfile='contracts/lemma_scriptnum.c', unwind=12, timeout=300),
]
# integer literals (the debugger's decimal conversion): the classification contracts of C07 - plain tokens of <= 5 characters for every
# spelling, and the concrete boundary literals of 10..20 characters - are re-run here
from props import C07 as _C07
QUERIES += [_C07.CLASSIFY, _C07.LITERALS]
META = {
 'level': 'proof',
 'trusted_base': TRUSTED,
 'assumptions': ASSUME_COMMON + [
   "domain: serialize over all 2^64 int64 values; decode over all byte strings of length 0..8 with any nMaxNumSize <= 8 and both minimality modes (the code's call sites use 2, 4 and 5)",
   "INT64_MIN is outside the script-number range; its 9-byte encoding is pinned separately",
 ],
 'explanation': 'function contracts (requires/ensures/assigns) on the real CScriptNum members, enforced by goto-instrument --dfcc, full symbolic inputs; loops unwound to the 8/9-byte width with unwinding assertions (complete)',
}
MANIFEST = {
 'text': 'Deductive proof, for all 2^64 integers and all byte strings of length 0..8 (any operand-size limit <= 8, both minimality modes), that the real CScriptNum::serialize / constructor / set_vch / getint meet their function contracts: serialize yields the unique minimal sign-magnitude encoding, decoding yields the denoted value, non-minimal or over-long strings raise exactly the prescribed failure, decode(serialize(x)) = x; uniqueness of minimal encodings is a lemma over the spec. Tests can only sample this space.',
 'note': 'Trusted: CBMC 6.11 (C++ front end, dfcc), the slicer, stubs/verif_std.h model of std::vector, the spec in contracts/spec_scriptnum.h. Value::int_value / data_value (the conversions behind integer literals, tf int, tf hex) are proved to be this codec; the hex PRINTING (HexStr: constexpr lookup table, std::string) is outside reach.',
 'technique': 'CBMC function contracts (__CPROVER_requires/ensures/assigns) enforced with goto-instrument --dfcc on the real CScriptNum code sliced from script/script.h; full-width symbolic inputs, loops unwound to operand width with unwinding assertions',
 'design_ref': 'DESIGN.md 6 (C18)',
}
