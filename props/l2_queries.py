from vf import Query
from props import units_l2 as UL
FN = ['debugger/interpreter.cpp: StepScript(InterpreterEnv&)', 'debugger/interpreter.cpp: RewindScript', 'debugger/interpreter.cpp: ContinueScript', 'debugger/interpreter.cpp: InterpreterEnv::InterpreterEnv',
      'script/interpreter.cpp: ScriptExecutionEnvironment::ScriptExecutionEnvironment', 'instance.cpp: Instance::step / rewind / at_start / at_end', 'instance.cpp: Instance::eval (execution loop)', 'instance.cpp: Instance::setup_environment (second half: session creation and hand-over)', 'script/script.cpp: CScript::IsPayToScriptHash', 'script/interpreter.cpp: CastToBool']
BASE = ['VERIF_STACK_W=2', 'VERIF_ITEM_CAP=8', 'VERIF_SCRIPT_CAP=24']
def q(name, entry, extra=(), unwind=34, replay=None, **kw):
    return Query(name, 'harness', UL.unit_l2, entry, defines=BASE + list(extra), unwind=unwind, timeout=1500, object_bits=12, functions=FN, replay=replay,
                 bounded='session-layer model: stack window 2 items of 8 bytes, scripts of at most 24 stored bytes (the session code copies and compares these values, it does not compute on them)', **kw)
def _args_l2(inp, q):
    import re
    def _i(v):
        if isinstance(v, int): return v
        m = re.search(r'-?\d+', str(v)); return int(m.group(0)) if m else 0
    if 'l2_flags' not in inp: return None
    return [f"flags={_i(inp['l2_flags'])}", f"sv={_i(inp.get('l2_sv', 0))}"]
REPLAY_L2 = {'driver': 'replay/l2_replay.cpp', 'args': _args_l2, 'premake': ['libbitcoin.a', 'libbitcoin_deb.a'],
             'libs': ['-Wl,--start-group', '{REPO}/libbitcoin_deb.a', '{REPO}/libbitcoin.a', '{REPO}/secp256k1/.libs/libsecp256k1.a', '-Wl,--end-group']}
REWIND_ROUNDTRIP = q('l2_rewind_roundtrip', 'h_l2_rewind_roundtrip', replay=REPLAY_L2)
REWIND_REFUSED = q('l2_rewind_refused', 'h_l2_rewind_refused')
STEP_FAILED = q('l2_step_failed', 'h_l2_step_failed')
END_OF_SCRIPT = q('l2_end_of_script', 'h_l2_end_of_script')
CTOR = q('l2_ctor', 'h_l2_ctor')
CONTINUE = q('l2_continue', 'h_l2_continue', ['L2_STUB_SESSION_STEP'], unwind=6, unwind_assert=False,
             note='loop closed by a state-independent callee contract: every iteration starts from a havocked session, so a few unwindings (6; stub containers need 3) cover all behaviours (partial correctness; termination not proved)')
INSTANCE_STEP = q('l2_instance_step', 'h_l2_instance_step', ['L2_STUB_SESSION_STEP'], unwind=6, unwind_assert=False,
                  note='loop closed by a state-independent callee contract (see l2_continue)')
EVAL = Query('l2_eval', 'harness', UL.unit_l2, 'h_l2_eval', defines=['VERIF_STACK_W=2', 'VERIF_ITEM_CAP=8', 'VERIF_SCRIPT_CAP=6'], unwind=10, timeout=1500, object_bits=12, functions=FN,
             bounded='exec lists of at most 6 encoded bytes (each operation advances by >= 1 byte)')
COMMITMENT = q('l2_commitment', 'h_l2_commitment')
SETUP = q('l2_setup', 'h_l2_setup')
ALL = [COMMITMENT, SETUP, REWIND_ROUNDTRIP, REWIND_REFUSED, STEP_FAILED, END_OF_SCRIPT, CTOR, CONTINUE, INSTANCE_STEP, EVAL]
