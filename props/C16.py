from vf import Query
from props import l2_queries as L
from props import C01
from props.common import *
import re
def local_variant(q):
    return Query(q.name.replace('step_', 'exec_'), q.kind, q.unit, q.entry, defines=q.defines + ['H_LOCAL_SCRIPT'], unwind=q.unwind, timeout=q.timeout, object_bits=q.object_bits,
                 tier=q.tier, bounded=q.bounded, functions=q.functions)
# the step contract with the operation decoded from exec's temporary script (local_script != nullptr), for a representative
# of every structural class of opcode: push, small int, control, alt stack, stack shuffles, numeric, hash, code separator, bad, unexecuted
PICK = r'step_(push|smallint|if_63|else_endif_67|verify_69|toalt_6b|fromalt_6c|2dup_6e|2rot_71|dup_76|swap_7c|size_82|equal_88|unary_8b|addsub_93|within_a5|hash_a9|codesep_ab|cltv_b1|badop|disabled_gate|unexecuted)$'
from props import units_main as UM
PARSE = Query('exec_token_parser', 'harness', UM.unit_eval_parse, 'h_evalparse', defines=['VERIF_ITEM_CAP=16', 'VERIF_SCRIPT_CAP=26', 'VERIF_TOKEN_CAP=5'], unwind=30, timeout=2400, object_bits=10,
              functions=['instance.cpp: Instance::eval (token parser: number / hex / opcode classification and assembly)', 'util/strencodings.cpp: TryHex, HexDigit, p_util_hexdigit', 'script/script.h: CScript push encoders'],
              bounded='one token of at most 5 characters without whitespace; atoi / snprintf("%d") are assumed libc models (stubs/libc_num.h); GetOpCode is an oracle')
QUERIES = [L.EVAL, PARSE] + [local_variant(q) for q in C01.QUERIES if q.tier == 'quick' and re.match(PICK, q.name)]
META = {'level': 'proof', 'trusted_base': TRUSTED,
 'assumptions': ASSUME_COMMON + [
   "token parser of exec: decided for single tokens of at most 5 characters with ASSUMED models of atoi and snprintf(\"%d\") (stubs/libc_num.h) and GetOpCode as an oracle; the real TryHex is in the unit; longer tokens and the name table of GetOpCode are not covered",
   "exec loop: the interpreter step is its contract; lists of at most 6 encoded bytes (bounded); per-operation semantics: the C01 step contract re-proved with the operation decoded from a separate script object",
 ],
 'explanation': 'frame and exception contract of the execution loop of Instance::eval + the L1 step contract with local_script substitution'}
MANIFEST = {
 'text': 'exec: (a) the real StepScript, called with the operation decoded from exec\'s temporary script, meets the same per-opcode consensus contract as for the debugged script (same stack, alt stack, conditional state, errors) and does not touch the debugged script or its position; (b) the execution loop of Instance::eval leaves position, remaining script, marker, phase, rewind histories and the signed-code start untouched, lets no interpreter exception escape and executes each listed operation at most once.',
 'note': 'Token parser: bounded (tokens <= 5 chars, assumed libc models, opcode-name lookup as oracle). Loop proved for lists up to 6 encoded bytes with the step as contract.',
 'technique': 'assume/assert contracts with frame conditions on the real StepScript (local_script variant) and on the loop of Instance::eval with the callee replaced by its contract; CBMC',
 'design_ref': 'DESIGN.md 6 (C16)'}
