from vf import Query
from props import units_tap as UT
from props.common import *
from props import l2_queries as L
FN = ['debugger/interpreter.cpp: TaprootCommitmentEnv::TaprootCommitmentEnv', 'debugger/interpreter.cpp: TaprootCommitmentEnv::Iterate', 'debugger/interpreter.cpp: TaprootCommitmentEnv::Description']
def q(name, entry, m, tier='quick'):
    k = 33 + 32 * m
    return Query(f'{name}_m{m}', 'harness', UT.unit_tap, entry, defines=[f'VERIF_ITEM_CAP={k}', 'VERIF_SCRIPT_CAP=24', f'H_TAP_MAXPATH={m}', 'VERIF_HASHLOG_CAP=72'], unwind=k + 4, timeout=1500, object_bits=10, tier=tier,
                 bounded=f'control blocks with at most {m} path nodes have storage (BIP341 allows 128); Iterate is proved as one step from an arbitrary index and running hash (inductive over the path index); leaf scripts of at most 24 bytes', functions=FN)
from props import C03 as _C03
QUERIES = [L.COMMITMENT, _C03.CFG_TAPROOT, q('tap_ctor', 'h_tap_ctor', 4), q('tap_iterate', 'h_tap_iterate', 4), q('tap_description', 'h_tap_description', 4),
           q('tap_ctor', 'h_tap_ctor', 16, 'thorough'), q('tap_iterate', 'h_tap_iterate', 16, 'thorough')]
META = {'level': 'proof', 'trusted_base': TRUSTED + ['stubs/tap_env.h: HashWriter as ghost-logged oracle (serialization of uint8/script/uint256/Span as in serialize.h), XOnlyPubKey::CheckTapTweak as oracle, uint256'],
 'assumptions': ASSUME_COMMON + [
   "tagged SHA-256 is an uninterpreted function of (tag, written bytes): the contract pins what is hashed, in which order, and what the results are used for; SHA-256 itself, ComputeTapTweakHash and secp256k1_xonly_pubkey_tweak_add_check are not verified",
   "the control-block size rule (33 + 32m, m <= 128) is checked by the caller (instance.cpp) before construction: precondition here; its text is outside reach (inside the 290-line configure_tx_txin)",
   "script serialization modelled for lengths < 253 (one-byte compact size)",
 ],
 'explanation': 'contracts on the real TaprootCommitmentEnv constructor and Iterate against BIP341 with hash and tweak oracles; one Iterate step from an arbitrary (index, running hash) state = inductive step of the Merkle fold'}
MANIFEST = {
 'text': 'For every control block (up to the modelled path length), leaf script and program: the constructor hashes exactly leaf_version || compact_size(script) || script under the TapLeaf tag and publishes that as the leaf hash later signed over; each Iterate from an arbitrary intermediate state hashes the running hash and the next path node in lexicographic order under the TapBranch tag; after the last node exactly one tweak check (program, control[1..33), running hash, parity bit) decides success. SHA-256 and the curve check are oracles.',
 'note': 'Path length bounded by storage (4 quick / 16 thorough; the step is index-generic code). The size rule of the control block (33+32m bytes, m <= 128) is decided on the set-up code of Instance::configure_tx_txin (cfg_taproot); the batch twin ComputeTaprootMerkleRoot is not covered.',
 'technique': 'assume/assert contracts with ghost-logged hash/tweak oracles on the real TaprootCommitmentEnv code; inductive step over the path index; CBMC',
 'design_ref': 'DESIGN.md 6 (C05)'}
