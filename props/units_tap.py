"""unit for C05: TaprootCommitmentEnv (constructor, Iterate, Description) of debugger/interpreter.{h,cpp}"""
from slice import *
def unit_tap():
    t = '#include "verif_std.h"\n#include "tap_env.h"\n'
    t += between('script/interpreter.h', r'^static constexpr uint8_t TAPROOT_LEAF_MASK', r'^extern const HashWriter HASHER_TAPSIGHASH', include_end=False)
    st = block('debugger/interpreter.h', r'^struct TaprootCommitmentEnv')
    t += st
    ctor = between('debugger/interpreter.cpp', r'^TaprootCommitmentEnv::TaprootCommitmentEnv\(', r'^TaprootCommitmentEnv::State TaprootCommitmentEnv::Iterate\(\)', include_end=False)
    # R-BRACEINIT: member{expr} in the constructor initialiser list -> member(expr)
    ctor = rewrite(ctor, [(r',   m_p\{uint256\((.*)\)\}\n', r',   m_p(uint256(\1))\n', 1), (r',   m_q\{uint256\(program\)\}', ',   m_q(uint256(program))', 1), (r',   m_applied_tweak\{false\} \{', ',   m_applied_tweak(false) {', 1)])
    t += ctor
    it = block('debugger/interpreter.cpp', r'^TaprootCommitmentEnv::State TaprootCommitmentEnv::Iterate\(\)', trailing=None)
    it = rewrite(it, [(r'Span<const unsigned char> node\(', 'verif_span node(', 1)])
    t += it
    d = block('debugger/interpreter.cpp', r'^std::vector<std::string> TaprootCommitmentEnv::Description\(\)', trailing=None)
    d = rewrite(d, [(r'Span<const unsigned char>\(', 'verif_span(', 1), (r'auto node_begin = ', 'const unsigned char* node_begin = ', 1)])
    t += d
    t = rewrite(t, [(r'std::vector<std::string>', 'verif_strvec', 3)])
    t = rewrite(t, R_TYPES)
    return t + '\n#include "h_tap.h"\n'
