"""L2 unit: the debugger session -- InterpreterEnv, StepScript(InterpreterEnv&), RewindScript, ContinueScript (debugger/interpreter.cpp)
and Instance::step / rewind / at_start / at_end + the execution loop of Instance::eval (instance.cpp), sliced verbatim;
the L1 step and TaprootCommitmentEnv::Iterate are replaced by their contracts (stubs/l2_step_stub.h, l2_env_pre.h)."""
from slice import *
from props import units_step as US

HIST_TYPES = [
    (r'std::vector<stack_type>', 'verif_stackhist', None),
    (r'std::vector<CScript::const_iterator>', 'verif_pchist', None),
    (r'std::vector<int>', 'verif_inthist', None),
    (r'std::vector<uint32_t>', 'verif_u32hist', None),
    (r'std::vector<ConditionStack>', 'verif_cshist', None),
    (r'std::vector<ScriptExecutionData>', 'verif_edhist', None),
    (r'std::vector<CScript>', 'verif_scripthist', None),
]

def interp_env_struct():
    t = block('debugger/interpreter.h', r'^struct InterpreterEnv : public ScriptExecutionEnvironment')
    t = rewrite(t, HIST_TYPES + [(r'InterpreterEnv\(stack_type& stack_in, const CScript& script_in, unsigned int flags_in, const BaseSignatureChecker& checker_in,', 'InterpreterEnv(stack_type& stack_in, CScript& script_in, unsigned int flags_in, BaseSignatureChecker& checker_in,', 1)])
    return t

def interp_env_ctor():
    t = block('debugger/interpreter.cpp', r'^InterpreterEnv::InterpreterEnv\(', trailing=None, open_at_bol=True)
    return rewrite(t, [(r'InterpreterEnv::InterpreterEnv\(std::vector<valtype>& stack_in, const CScript& script_in, unsigned int flags_in, const BaseSignatureChecker& checker_in,', 'InterpreterEnv::InterpreterEnv(verif_stack& stack_in, CScript& script_in, unsigned int flags_in, BaseSignatureChecker& checker_in,', 1)])

MAYTHROW_L1 = [(r'if \(!StepScript\(env, pc\)\) \{', r'bool verif_ok_ = StepScript(env, pc); if (verif_thrown) {PROP} if (!verif_ok_) {')]
MAYTHROW_L2 = [(r'if \(!StepScript\(env\)\) return false;', r'{ bool verif_ok_ = VERIF_SESSION_STEP(env); if (verif_thrown) {PROP} if (!verif_ok_) return false; }')]
MAYTHROW_INST = [(r'if \(!StepScript\(\*env\)\) return false;', r'{ bool verif_ok_ = VERIF_SESSION_STEP(*env); if (verif_thrown) {PROP} if (!verif_ok_) return false; }'),
                 (r'if \(!StepScript\(\*env, it, &script\)\) \{', r'bool verif_ok_ = StepScript(*env, it, &script); if (verif_thrown) {PROP} if (!verif_ok_) {')]

def session_functions():
    s = block('debugger/interpreter.cpp', r'^bool StepScript\(InterpreterEnv& env\)', trailing=None)
    s = rewrite(s, [(r'delete env\.tce;', 'verif_delete_tce(env.tce);', '+')])
    s, _ = r_exc(s, MAYTHROW_L1)
    if 'verif_thrown' not in s:
        raise SliceError("R-EXC: the call of the interpreter step inside StepScript(InterpreterEnv&) was not found")
    r = block('debugger/interpreter.cpp', r'^bool RewindScript\(InterpreterEnv& env\)', trailing=None)
    c = block('debugger/interpreter.cpp', r'^bool ContinueScript\(InterpreterEnv& env\)', trailing=None)
    c, ntry = r_exc(c, MAYTHROW_L2)
    if 'verif_thrown' not in c:
        raise SliceError("R-EXC: the call of StepScript inside ContinueScript was not found")
    # R-HELPERS: file-local helpers the three session functions call (none on the pinned tree; a refactoring that moves
    # statements into a new static function keeps the unit complete and the contracts decide the moved code as well)
    h = local_helpers('debugger/interpreter.cpp', s + r + c, exclude=('StepScript', 'RewindScript', 'ContinueScript', 'StepExtended', 'CastToBool'))
    return h + s + r + c

def instance_functions():
    t = '''
// ---- the part of class Instance the sliced members use (instance.h declares many more members: transactions, amounts, ...)
class Instance { public: InterpreterEnv* env; std::string exception_string; bool at_end(); bool at_start(); bool step(size_t steps = 1); bool rewind(); };
'''
    for name in ('at_end', 'at_start'):
        t += between('instance.cpp', r'^bool Instance::' + name + r'\(\) \{', r'^', include_end=False) if False else ''
    src_end = between('instance.cpp', r'^bool Instance::at_end\(\)', r'^std::string Instance::error_string\(\)', include_end=False)
    t += src_end
    st = block('instance.cpp', r'^bool Instance::step\(size_t steps\)', trailing=None)
    st = rewrite(st, [(r'exception_string = "";', 'exception_string = std::string();', 1), (r'exception_string = verif_what\(\);', 'exception_string = std::string(verif_what());', None)])
    st, ntry = r_exc(st, MAYTHROW_INST)
    st = rewrite(st, [(r'exception_string = verif_what\(\);', 'exception_string = std::string(verif_what());', None)])
    t += st
    t += block('instance.cpp', r'^bool Instance::rewind\(\)', trailing=None)
    # execution loop of Instance::eval: everything from the iterator declaration to the end of the function; the token
    # parser in front of it is dropped (libc string functions), `script` is the locally built CScript
    ev = between('instance.cpp', r'^    CScript::const_iterator it = script\.begin\(\);', r'^bool Instance::configure_tx_txin\(\)', include_end=False)
    ev = ev.rstrip()
    if not ev.endswith('}'):
        raise SliceError("eval loop slice does not end with the function's closing brace")
    ev, ntry2 = r_exc(ev, MAYTHROW_INST)
    ev = rewrite(ev, [(r'ScriptErrorString\(\*env->serror\)\.c_str\(\)', '""', None)])
    t += 'bool verif_eval_loop(InterpreterEnv* env, CScript& script) {\n' + ev + '\n'
    # second half of Instance::setup_environment (R-PARTIAL): from the code-separator initialisation to the end - creation of the
    # session and hand-over of successor script, pretend-valid table, execution data and commitment checker; the first half
    # (transaction signature checker, PrecomputedTransactionData) is outside the front end
    su = between('instance.cpp', r'^    execdata\.m_codeseparator_pos = 0xFFFFFFFFUL;', r'^bool Instance::at_end\(\)', include_end=False).rstrip()
    if not su.endswith('}') or 'return env->operational;' not in su:
        raise SliceError("setup_environment tail does not end with `return env->operational; }`")
    t += ('bool verif_setup_tail(verif_stack& stack, CScript& script, unsigned int flags, BaseSignatureChecker* checker, SigVersion sigver, ScriptError& error, CScript& successor_script,\n'
          '                      verif_bytes_map& pretend_valid_map, verif_bytes_set& pretend_valid_pubkeys, ScriptExecutionData& execdata, TaprootCommitmentEnv* tce, InterpreterEnv*& env) {\n' + su + '\n')
    return t

def build_l2():
    t = US.defs_text()
    t = rewrite(t, [(r'const BaseSignatureChecker& checker_in\);', 'BaseSignatureChecker& checker_in);', 1)])
    t += '#include "l2_env_pre.h"\n'
    t += interp_env_struct()
    t += '''static bool verif_session_step_contract(InterpreterEnv& env);
#ifdef L2_STUB_SESSION_STEP
#define VERIF_SESSION_STEP(e) verif_session_step_contract(e)
#else
#define VERIF_SESSION_STEP(e) StepScript(e)
#endif
'''
    t += '#include "step_env_post.h"\n'
    t += between('debugger/see.h', r'^bool StepScript\(ScriptExecutionEnvironment& env, CScript::const_iterator& pc, CScript\* local_script = nullptr\);', r'^// made public to assist instance\.cpp', include_end=False)
    t += '#include "l2_step_stub.h"\n'
    t += US.cast_to_bool()
    t += block('script/script.cpp', r'^bool CScript::IsPayToScriptHash\(\) const', trailing=None, open_at_bol=True)
    t += US.env_ctor() + interp_env_ctor()
    t += session_functions() + instance_functions()
    t = US.common_rules(t)
    t = r_throw(t, THROW_TABLE)
    fields = struct_fields(t, 'ScriptExecutionEnvironment')
    fields.update(struct_fields(t, 'InterpreterEnv'))
    t = r_auto(t, fields, 'env', None)
    if re.search(r'\bauto&', t):
        raise SliceError("R-AUTO: an `auto&` binding is left in the unit")
    return t

def unit_l2():
    return build_l2() + '\n#include "h_l2.h"\n'
