from vf import Query
from props import units_svf as USV
from props import units_step as US
from props import step_groups as G
from props import C01
from props.common import *
import re, slice as S

NAMES = ["P2SH", "STRICTENC", "DERSIG", "LOW_S", "NULLDUMMY", "SIGPUSHONLY", "MINIMALDATA", "DISCOURAGE_UPGRADABLE_NOPS", "CLEANSTACK",
         "CHECKLOCKTIMEVERIFY", "CHECKSEQUENCEVERIFY", "WITNESS", "DISCOURAGE_UPGRADABLE_WITNESS_PROGRAM", "MINIMALIF", "NULLFAIL", "WITNESS_PUBKEYTYPE",
         "CONST_SCRIPTCODE", "TAPROOT", "DISCOURAGE_UPGRADABLE_TAPROOT_VERSION", "DISCOURAGE_OP_SUCCESS", "DISCOURAGE_UPGRADABLE_PUBKEYTYPE"]

def unit_mono():
    t = US.build()
    # static supporting fact (reported, and enforced): every use of the flag word in the sliced step code is a mask test
    step = re.sub(r'//[^\n]*', '', US.step_function())
    step = re.sub(r'"(?:[^"\\\n]|\\.)*"', '""', step)   # string literals are not code
    uses = re.findall(r'[^\n]*\bflags\b[^\n]*', step)
    for u in uses:
        u2 = u.strip()
        if re.search(r'\(flags & SCRIPT_VERIFY_\w+\)', u2) or re.search(r'\(flags & \(SCRIPT_VERIFY_', u2): continue
        if re.search(r'^unsigned int& flags = env\.flags;|^auto& flags = env\.flags;', u2): continue
        if re.search(r'^if \(!\(flags & SCRIPT_VERIFY_\w+\)\) \{$', u2): continue
        if re.search(r'EvalChecksig\(|CheckSignatureEncoding\(|CheckPubKeyEncoding\(', u2): continue
        raise S.SliceError(f"flag word used other than as '(flags & SCRIPT_VERIFY_X)': {u2[:120]}")
    return t + '\n#include "h_mono.h"\n'

FSVF = ['btcdeb.cpp: svf table', 'btcdeb.cpp: svf_get_flag', 'btcdeb.cpp: svf_parse_flags', 'policy/policy.h: STANDARD_SCRIPT_VERIFY_FLAGS']
def queries():
    qs = []
    SV = dict(unwind=130, timeout=900, object_bits=10, extra_cbmc=['--max-field-sensitivity-array-size', '200'], functions=FSVF)
    qs.append(Query('svf_table', 'harness', USV.unit_svf, 'h_svf_table', **SV))
    for L in (127, 128, 129, 150):
        SL = dict(SV); SL['unwind'] = 204; SL['extra_cbmc'] = ['--max-field-sensitivity-array-size', '260']
        qs.append(Query(f'svf_long_{L}', 'harness', USV.unit_svf, 'h_svf_long', defines=['VERIF_STR_CAP=200', f'H_SVF_LONGLEN={L}'], **SL))
    qs.append(Query('svf_unknown', 'harness', USV.unit_svf, 'h_svf_unknown', bounded='unknown names of at most 11 characters', **SV))
    for a, n in enumerate(NAMES):
        da = [f'H_SVF_NAME_A="{n}"', f'H_SVF_BIT_A={a}']
        qs.append(Query(f'svf_parse1_{a:02d}', 'harness', USV.unit_svf, 'h_svf_parse1', defines=da, **SV))
        for kind in range(4):
            qs.append(Query(f'svf_reject_{a:02d}_k{kind}', 'harness', USV.unit_svf, 'h_svf_reject', defines=da + [f'H_SVF_KIND={kind}'], tier='quick' if kind in (0, 1) or a % 4 == 0 else 'thorough', **SV))
        for b, m in enumerate(NAMES):
            quick = (b == a) or (b == (a + 1) % 21) or (n.startswith(m) or m.startswith(n))
            qs.append(Query(f'svf_parse2_{a:02d}_{b:02d}', 'harness', USV.unit_svf, 'h_svf_parse2', defines=da + [f'H_SVF_NAME_B="{m}"', f'H_SVF_BIT_B={b}'],
                            tier='quick' if quick else 'thorough', bounded='flag lists of at most two items (the parser loop has no invariant proof)', **SV))
    # the parser loop as a loop contract (init / one arbitrary iteration / exit): lists of every length
    FL = ['btcdeb.cpp: svf_parse_flags (loop cut into condition, body, exit by R-LOOPCUT)']
    for h in ('step', 'init', 'exit'):
        qs.append(Query(f'svf_loop_{h}', 'harness', USV.unit_svf_loop, f'h_svf_loop_{h}', unwind=130, timeout=900, object_bits=10, extra_cbmc=['--max-field-sensitivity-array-size', '200'], functions=FL))
    for h in ('h_svf_string_standard',):
        qs.append(Query(h[2:], 'harness', USV.unit_svf_string, h, unwind=66, timeout=1500, object_bits=10, extra_cbmc=['--max-field-sensitivity-array-size', '200'],
                        functions=['btcdeb.cpp: svf_string (std::string as a rope of pieces)', 'btcdeb.cpp: svf table', 'policy/policy.h: STANDARD_SCRIPT_VERIFY_FLAGS']))
    # monotonicity lemma over the step spec, per opcode group
    NOSPLIT = {'push', 'badop', 'smallint', 'nopx', 'disabled_gate'}
    NUMERIC = {'unary', 'addsub', 'boolcmp', 'minmax', 'within', 'cltv', 'csv'}
    for (name, opsel, k, g, extra, bytes_) in G.GROUPS:
        if name == 'disabled_gate': continue   # never succeeds without the option: nothing to prove
        w = max(k + g, 1)
        cap = 8 if name in NUMERIC else (40 if name == 'hash' else 16)
        variants = [(f'mono_{name}', opsel)] if name in NOSPLIT else [(f'mono_{name}_{b:02x}', f'op=={b:#x}') for b in bytes_]
        for qn, sel in variants:
            defs = [f'H_OPSEL(op)=({sel})', f'H_N={k}', f'VERIF_STACK_W={max(w, 2) if name in ("fromalt", "toalt") else w}', f'VERIF_ITEM_CAP={cap}', 'H_AN=' + ('1' if name == 'fromalt' else '0')]
            if name in NUMERIC or name in ('push', 'nopx', 'if', 'codesep', 'pickroll'): defs.append('H_MONO_FLAGGED')
            if name == 'disabled_gate': defs.append('H_ALLOW_DISABLED=0')
            qs.append(Query(qn, 'harness', unit_mono, 'h_mono', defines=defs, unwind=max(cap + 2, 34), timeout=1500, object_bits=12,
                            bounded=f'element storage {cap} bytes', functions=['harness/spec_step.h: spec_step (lemma over the specification)'], backend='kissat' if name in NUMERIC else None))
    # monotonicity of the signature opcodes: lemma over spec_sig.h with the cryptographic verdicts as flag-independent oracles
    def msig(name, sel, n, cap, extra=(), tier='quick', timeout=3000):
        return Query(name, 'harness', unit_mono, 'h_mono', defines=[f'H_OPSEL(op)=({sel})', f'H_N={n}', f'VERIF_STACK_W={max(n, 1)}', f'VERIF_ITEM_CAP={cap}', 'H_AN=0', 'H_MONO_SIG', 'H_MONO_FLAGGED'] + list(extra),
                     unwind=max(cap + 2, 34), timeout=timeout, object_bits=12, tier=tier, backend='kissat', bounded=f'element storage {cap} bytes',
                     functions=['harness/spec_sig.h: spec_sig_op / spec_eval_checksig (lemma over the specification)'])
    qs.append(msig('mono_sig_checksig', 'op==0xac', 2, 80, ['VERIF_ORACLE_N=4']))
    qs.append(msig('mono_sig_checksigverify', 'op==0xad', 2, 80, ['VERIF_ORACLE_N=4']))
    qs.append(msig('mono_sig_checksigadd', 'op==0xba', 3, 40, ['VERIF_ORACLE_N=4']))
    # multisig: the signature-less shapes (counts, dummy, NULLDUMMY, op-count charge); with signatures the two-run lemma does not
    # finish on any back end (1 key + 1 signature: > 25 min MiniSat, kissat fails) - the matching loop's flag tests are the same
    # spec_sig_encoding_error / spec_key_encoding_error calls the single-signature lemmas cover
    for (nk, ns) in ((0, 0), (1, 0)):
        n = nk + ns + 3
        qs.append(msig(f'mono_sig_multisig_{nk}of{ns}', 'op==0xae||op==0xaf', n, 10, ['VERIF_ORACLE_N=12', 'H_BASE0', f'H_MS_KEYS={nk}', f'H_MS_SIGS={ns}']))
    return qs
QUERIES = queries()
# the lemma is about the spec; the code == spec obligations it rests on are re-checked in this run for the flag-sensitive opcodes
DEP = [q for q in C01.QUERIES if q.tier == 'quick' and re.match(r'step_(cltv_b1|csv_b2|nopx|if_63|if_64|push|codesep_ab|unary_8b|unexecuted)$', q.name)]
from props import C02
DEP += [q for q in C02.QUERIES if q.tier == 'quick' and re.match(r'sig_(checksig_pre|checksigverify_pre|checksig_tapscript|checksigadd_tapscript|checkmultisig_1of0)$', q.name)]
QUERIES += DEP
META = {
 'level': 'proof',
 'trusted_base': TRUSTED,
 'assumptions': ASSUME_COMMON + [
   "flag-list parser, lists of every length: loop contract on the real loop of svf_parse_flags (R-LOOPCUT: initialisation / one iteration from an arbitrary state satisfying the invariant / exit are three discharged obligations sets; the induction over iterations - the Hoare loop rule - is the one step not checked by CBMC); inside it svf_get_flag is its contract (arbitrary result for the exact item name), whose content - 21 names -> bits, unknown names -> 0 - is proved by svf_table / svf_unknown (unknown names of <= 11 characters: bounded)",
   "end-to-end cross-check with the real svf_get_flag: per concrete name / name pair / malformation with a symbolic starting set (lists of <= 2 items)",
   "monotonicity is a lemma over harness/spec_step.h and harness/spec_sig.h (signature opcodes: cryptographic verdicts as flag-independent oracles shared by both runs; multisig only without signatures); it transfers to the code through the C01 / C02 step obligations (the flag-sensitive ones are re-run here); the P2SH/WITNESS/CLEANSTACK session phases are outside this lemma",
 ],
 'explanation': 'contracts on svf_get_flag/svf_parse_flags sliced from btcdeb.cpp; lemma "A subset B and success under B implies success with the same post-state under A" proved by CBMC over the executable step specification per opcode group',
}
MANIFEST = {
 'text': 'Flag table: each of the 21 names resolves to exactly its flag, unknown names to none, the standard set is the prescribed one. Parser, lists of every length (loop contract on the real loop): each item is looked up exactly once under exactly its name, +NAME sets exactly that flag, -NAME clears exactly it, nothing else changes, and a missing sign, unknown name, empty or over-long item never returns a flag set; cross-checked end to end for every name and ordered name pair. Monotonicity: for every operation including the signature opcodes, state and flag sets A subset of B, success under B implies success with the identical post-state under A (lemma over the step specification with cryptographic verdicts as oracles, transferred to the code by the C01 / C02 step contracts re-checked in the same run).',
 'note': 'The induction over loop iterations is the Hoare loop rule applied by hand (init / step / exit obligations are discharged by CBMC). Unknown-name rejection by the table is proved for names of at most 11 characters. Flags consumed by the session phases (P2SH, WITNESS, CLEANSTACK) and multisig with signatures are outside the monotonicity lemma.',
 'technique': 'CBMC assume/assert contracts on the sliced flag parser (loop contract: init/step/exit of the real loop body) with spec table; self-composition lemma over the executable step and signature specification; C01/C02 step contracts as the code==spec link',
 'design_ref': 'DESIGN.md 6 (C09)',
}
