from vf import Query
from props import units_svf as USV
from props import units_step as US
from props import step_groups as G
from props import C01
from props.common import *
import re, slice as S

NAMES = ["P2SH", "STRICTENC", "DERSIG", "LOW_S", "NULLDUMMY", "SIGPUSHONLY", "MINIMALDATA", "DISCOURAGE_UPGRADABLE_NOPS", "CLEANSTACK",
         "CHECKLOCKTIMEVERIFY", "CHECKSEQUENCEVERIFY", "WITNESS", "DISCOURAGE_UPGRADABLE_WITNESS_PROGRAM", "MINIMALIF", "NULLFAIL", "WITNESS_PUBKEYTYPE",
         "CONST_SCRIPTCODE", "TAPROOT", "DISCOURAGE_UPGRADABLE_TAPROOT_VERSION", "DISCOURAGE_OP_SUCCESS", "DISCOURAGE_UPGRADABLE_PUBKEYTYPE"]

def unit_mono():
    t = US.build()
    # static supporting fact (reported, and enforced): every use of the flag word in the sliced step code is a mask test
    step = re.sub(r'//[^\n]*', '', US.step_function())
    step = re.sub(r'"(?:[^"\\\n]|\\.)*"', '""', step)   # string literals are not code
    uses = re.findall(r'[^\n]*\bflags\b[^\n]*', step)
    for u in uses:
        u2 = u.strip()
        if re.search(r'\(flags & SCRIPT_VERIFY_\w+\)', u2) or re.search(r'\(flags & \(SCRIPT_VERIFY_', u2): continue
        if re.search(r'^unsigned int& flags = env\.flags;|^auto& flags = env\.flags;', u2): continue
        if re.search(r'^if \(!\(flags & SCRIPT_VERIFY_\w+\)\) \{$', u2): continue
        if re.search(r'EvalChecksig\(|CheckSignatureEncoding\(|CheckPubKeyEncoding\(', u2): continue
        raise S.SliceError(f"flag word used other than as '(flags & SCRIPT_VERIFY_X)': {u2[:120]}")
    return t + '\n#include "h_mono.h"\n'

FSVF = ['btcdeb.cpp: svf table', 'btcdeb.cpp: svf_get_flag', 'btcdeb.cpp: svf_parse_flags', 'policy/policy.h: STANDARD_SCRIPT_VERIFY_FLAGS']
def queries():
    qs = []
    SV = dict(unwind=130, timeout=900, object_bits=10, extra_cbmc=['--max-field-sensitivity-array-size', '200'], functions=FSVF)
    qs.append(Query('svf_table', 'harness', USV.unit_svf, 'h_svf_table', **SV))
    for L in (127, 128, 129, 150):
        SL = dict(SV); SL['unwind'] = 204; SL['extra_cbmc'] = ['--max-field-sensitivity-array-size', '260']
        qs.append(Query(f'svf_long_{L}', 'harness', USV.unit_svf, 'h_svf_long', defines=['VERIF_STR_CAP=200', f'H_SVF_LONGLEN={L}'], **SL))
    qs.append(Query('svf_unknown', 'harness', USV.unit_svf, 'h_svf_unknown', bounded='unknown names of at most 11 characters', **SV))
    for a, n in enumerate(NAMES):
        da = [f'H_SVF_NAME_A="{n}"', f'H_SVF_BIT_A={a}']
        qs.append(Query(f'svf_parse1_{a:02d}', 'harness', USV.unit_svf, 'h_svf_parse1', defines=da, **SV))
        for kind in range(4):
            qs.append(Query(f'svf_reject_{a:02d}_k{kind}', 'harness', USV.unit_svf, 'h_svf_reject', defines=da + [f'H_SVF_KIND={kind}'], tier='quick' if kind in (0, 1) or a % 4 == 0 else 'thorough', **SV))
        for b, m in enumerate(NAMES):
            quick = (b == a) or (b == (a + 1) % 21) or (n.startswith(m) or m.startswith(n))
            qs.append(Query(f'svf_parse2_{a:02d}_{b:02d}', 'harness', USV.unit_svf, 'h_svf_parse2', defines=da + [f'H_SVF_NAME_B="{m}"', f'H_SVF_BIT_B={b}'],
                            tier='quick' if quick else 'thorough', bounded='flag lists of at most two items (the parser loop has no invariant proof)', **SV))
    # monotonicity lemma over the step spec, per opcode group
    NOSPLIT = {'push', 'badop', 'smallint', 'nopx', 'disabled_gate'}
    NUMERIC = {'unary', 'addsub', 'boolcmp', 'minmax', 'within', 'cltv', 'csv'}
    for (name, opsel, k, g, extra, bytes_) in G.GROUPS:
        if name == 'disabled_gate': continue   # never succeeds without the option: nothing to prove
        w = max(k + g, 1)
        cap = 8 if name in NUMERIC else (40 if name == 'hash' else 16)
        variants = [(f'mono_{name}', opsel)] if name in NOSPLIT else [(f'mono_{name}_{b:02x}', f'op=={b:#x}') for b in bytes_]
        for qn, sel in variants:
            defs = [f'H_OPSEL(op)=({sel})', f'H_N={k}', f'VERIF_STACK_W={max(w, 2) if name in ("fromalt", "toalt") else w}', f'VERIF_ITEM_CAP={cap}', 'H_AN=' + ('1' if name == 'fromalt' else '0')]
            if name in NUMERIC or name in ('push', 'nopx', 'if', 'codesep', 'pickroll'): defs.append('H_MONO_FLAGGED')
            if name == 'disabled_gate': defs.append('H_ALLOW_DISABLED=0')
            qs.append(Query(qn, 'harness', unit_mono, 'h_mono', defines=defs, unwind=max(cap + 2, 34), timeout=1500, object_bits=12,
                            bounded=f'element storage {cap} bytes', functions=['harness/spec_step.h: spec_step (lemma over the specification)'], backend='kissat' if name in NUMERIC else None))
    return qs
QUERIES = queries()
# the lemma is about the spec; the code == spec obligations it rests on are re-checked in this run for the flag-sensitive opcodes
DEP = [q for q in C01.QUERIES if q.tier == 'quick' and re.match(r'step_(cltv_b1|csv_b2|nopx|if_63|if_64|push|codesep_ab|unary_8b|unexecuted)$', q.name)]
QUERIES += DEP
META = {
 'level': 'proof',
 'trusted_base': TRUSTED,
 'assumptions': ASSUME_COMMON + [
   "flag-list parser: proved per concrete name / name pair / malformation with a symbolic starting set (lists of <= 2 items: bounded); the table itself (21 names -> bits, standard set) is proved against a spec table written from Bitcoin Core's flag list",
   "monotonicity is a lemma over harness/spec_step.h for non-signature opcodes; it transfers to the code through the C01 step obligations (the flag-sensitive ones are re-run here); signature-encoding flags and the P2SH/WITNESS session phases are outside this lemma",
 ],
 'explanation': 'contracts on svf_get_flag/svf_parse_flags sliced from btcdeb.cpp; lemma "A subset B and success under B implies success with the same post-state under A" proved by CBMC over the executable step specification per opcode group',
}
MANIFEST = {
 'text': 'Flag table: each of the 21 names resolves to exactly its flag, unknown names to none, the standard set is the prescribed one. Parser: for every name and ordered name pair, both signs and any starting set, the result is the in-order fold of set/clear; malformed lists (missing sign, unknown name, empty item) never return a flag set. Monotonicity: for every non-signature operation, state and flag sets A subset of B, success under B implies success with the identical post-state under A (lemma over the step specification, transferred to the code by the C01 step contracts re-checked in the same run).',
 'note': 'Parser lists of more than two items and symbolic names are not covered (bounded). Flags consumed by signature opcodes (DERSIG, LOW_S, STRICTENC, NULLFAIL, NULLDUMMY, ...) and by the session phases (P2SH, WITNESS, CLEANSTACK) are outside the monotonicity lemma.',
 'technique': 'CBMC assume/assert contracts on the sliced flag parser with spec table; self-composition lemma over the executable step specification; C01 step contracts as the code==spec link',
 'design_ref': 'DESIGN.md 6 (C09)',
}
