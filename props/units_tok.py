"""unit for C07: the tokeniser Value::parse_args(const char*, size_t) of value.h (whitespace, '#' comments, bracket groups)"""
from slice import *

def unit_tokenise():
    t = '#include "verif_std.h"\n#include "tok_env.h"\n'
    f = block('value.h', r'^    static std::vector<Value> parse_args\(const char\* args_string, size_t args_len = 0\) \{', trailing=None)
    f = rewrite(f, [
        (r'static std::vector<Value> parse_args\(const char\* args_string, size_t args_len = 0\) \{', 'static void verif_tokenise(const char* args_string, size_t args_len) {', 1),   # R-PARTIAL: free function, no default argument
        (r'std::vector<const char\*> args;', 'verif_ptrvec args;', 1),                                                  # R-TYPES
        (r'char\* args_ptr\[args_len\];', 'char* args_ptr[VERIF_TOK_N + 2]; VERIF_LIMIT(args_len <= VERIF_TOK_N, "input length");', 1),   # R-VLA
        (r'exit\(1\);', 'VERIF_EXIT(1);', '+'),
        (r'std::vector<Value> result = parse_args\(args\);', 'verif_tokens_done(args);', 1),                             # R-PARTIAL: the per-token overload is a logging stub
        (r'return result;', 'return;', 1)])
    if re.search(r'std::|\bauto\b', re.sub(r'//[^\n]*', '', f)):
        raise SliceError("tokeniser: a std:: / auto form without rewrite rule is left")
    t += f
    return t + '\n#include "h_tokenise.h"\n'

def unit_argjoin():
    """Value::parse_args(const std::vector<const char*>) of value.h: command-line arguments -> values, joining a bracket expression
    that the shell split over several arguments"""
    t = '#include "verif_std.h"\n#include "argjoin_env.h"\n'
    f = block('value.h', r'^    static std::vector<Value> parse_args\(const std::vector<const char\*> args\) \{', trailing=None)
    f = rewrite(f, [
        (r'static std::vector<Value> parse_args\(const std::vector<const char\*> args\) \{', 'static verif_vallist verif_parse_args(const verif_argvec& args) {', 1),   # R-PARTIAL / R-TYPES
        (r'std::vector<Value> result;', 'verif_vallist result;', 1),
        (r'for \(auto& v : args\) \{', 'for (size_t verif_k = 0; verif_k < args.size(); ++verif_k) { const char* v = args[verif_k];', 1),   # R-RANGEFOR
        (r'\bstrlen\(', 'verif_strlen(', None)])                                                                                  # R-LIBC (names)
    if re.search(r'std::vector|\bauto\b', re.sub(r'//[^\n]*', '', f)):
        raise SliceError("argument joiner: a std::vector / auto form without rewrite rule is left")
    t += f
    return t + '\n#include "h_argjoin.h"\n'
