"""unit for C07 (encoding half): Value::operator>>(CScript&), Value::int_value/data_value (value.h) and the CScript push encoders
(script/script.h: push_int64, operator<< for int64 / opcodetype / CScriptNum / byte vector), CScriptNum::serialize, CheckMinimalPush"""
from slice import *

def cscript_members():
    src = 'script/script.h'
    t = 'class CScript : public CScriptBaseStub\n{\nprotected:\n'
    t += block(src, r'^    CScript& push_int64\(int64_t n\)', trailing=None)
    t += 'public:\n    CScript() { }\n'
    t += block(src, r'^    CScript& operator<<\(int64_t b\) LIFETIMEBOUND', trailing=None)
    t += block(src, r'^    CScript& operator<<\(opcodetype opcode\) LIFETIMEBOUND', trailing=None)
    t += block(src, r'^    CScript& operator<<\(const CScriptNum& b\) LIFETIMEBOUND', trailing=None)
    t += block(src, r'^    CScript& operator<<\(const std::vector<unsigned char>& b\) LIFETIMEBOUND', trailing=None)
    t += '};\n'
    return t

def value_members():
    src = 'value.h'
    t = 'struct Value {\n'
    t += between(src, r'^    enum \{$', r'^    static std::vector<Value> parse_args\(const std::vector<const char\*> args\)', include_end=False)
    op = block(src, r'^    const Value& operator>>\(CScript& s\) const \{', trailing=None)
    # R-CONSTTHIS: CBMC cannot return *this as const T& from a const member; the returned reference is not part of the contract
    op = rewrite(op, [(r'const Value& operator>>\(CScript& s\) const \{', 'void operator>>(CScript& s) const {', 1), (r'return \*this;', 'return;', 1)])
    t += op
    t += block(src, r'^    std::vector<uint8_t> data_value\(\) const \{', trailing=None)
    dv = block(src, r'^    std::vector<uint8_t> data_value\(/\*bool script = false\*/\) \{', trailing=None)
    # the T_OPCODE / string branches of data_value use a function template and memcpy on std::string storage: outside the front end;
    # operator>> reaches data_value() only for T_DATA (and T_STRING, which the encoding half does not claim)
    dv = rewrite(dv, [(r'insert\(data, CScript\(\) << opcode\);', 'verif_unmodelled("data_value(T_OPCODE)");', 1),
                      (r'data\.resize\(str\.length\(\)\);\n\s*memcpy\(data\.data\(\), str\.data\(\), str\.length\(\)\);', 'verif_unmodelled("data_value(T_STRING)");', 1)])
    t += dv
    t += block(src, r'^    int64_t int_value\(\) const \{', trailing=None)
    t += '};\n'
    t = rewrite(t, [(r'fprintf\(stderr, "cannot convert string into integer value: %s\\n", str\.c_str\(\)\);', 'verif_unmodelled("int_value(T_STRING)");', 1)])
    return t

def unit_enc():
    t = '#include "verif_std.h"\n#include "enc_env.h"\n'
    t += block('script/script.h', r'^enum opcodetype')
    t += block('script/script.h', r'^class CScriptNum$')
    t += cscript_members()
    t += 'inline void verif_unmodelled(const char* what) { __CPROVER_assert(0, "verif-limit: branch outside the encoding half"); }\n'
    t += value_members()
    t += block('script/script.cpp', r'^bool CheckMinimalPush\(', trailing=None)
    t = rewrite(t, R_TYPES + R_LIMITS)
    t = r_throw(t, THROW_TABLE)
    return t + '\n#include "h_enc.h"\n'
