from props import l2_queries as L
from props.common import *
QUERIES = [L.REWIND_ROUNDTRIP, L.REWIND_REFUSED, L.STEP_FAILED]
META = {'level': 'proof', 'trusted_base': TRUSTED + ['stubs/l2_step_stub.h: the interpreter step as its contract (assign set + may-raise), stubs/verif_hist_body.h: history vectors as ghost-prefix windows'],
 'assumptions': ASSUME_COMMON + [
   "the interpreter step is replaced by its contract: it may modify exactly the stacks, the conditional state, the op count, the signed-code start, the code-separator position, the signature budget, the decoded op and *serror, and advances pc (frame proved in C01/C02/C17)",
   "exceptions are encoded as a ghost flag with explicit propagation (rule R-EXC)",
   "history words by induction: the representation invariant (all histories of equal length) is shown inductive over step / failed step / rewind; 'state after any step-rewind word = fresh session advanced by the net count' follows by induction on the word (not mechanised)",
   "the finishing pseudo-step (which only sets the finished flag) is not a history entry: rewinding from the finished state clears the flag and undoes the last operation in one command (see DESIGN.md)",
 ],
 'explanation': 'contract of the pair StepScript(InterpreterEnv&);RewindScript: identity on the complete execution state for every well-formed session state; refused rewinds have an empty assign set; failed steps leave the histories aligned'}
MANIFEST = {
 'text': 'Deductive check over every well-formed session state (any stack depth, nesting, counts, positions, history length) that a successful operation step followed by a rewind restores the complete execution state - main and alt stack, conditional nesting, code-separator position and signed-code start, signature budget, opcode position, operation count, script position and marker - that a rewind which cannot be performed is refused with nothing changed, and that a failed step leaves the snapshot histories aligned; the equal-length invariant is inductive, so the statement extends to all step/rewind words.',
 'note': 'Interpreter step = its contract (any modification of its assign set). Script-switch and commitment steps take no snapshot and rewinding across them is refused by the at-start guard (checked). Induction over command words is argued, not mechanised.',
 'technique': 'assume/assert contracts with frame conditions on the real StepScript(InterpreterEnv&)/RewindScript/Instance::rewind, callee replaced by its contract, discharged by CBMC for all session states (one-step inductive invariant)',
 'design_ref': 'DESIGN.md 6 (C04)'}
