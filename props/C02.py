from vf import Query
from props import units_step as US
from props.common import *
from props.replay_step import REPLAY_STEP
def unit_step_sig():
    return US.build(with_checksig=True) + '\n#include "h_step.h"\n'
FN = ['script/interpreter.cpp: StepScript (OP_CHECKSIG, OP_CHECKSIGVERIFY, OP_CHECKSIGADD, OP_CHECKMULTISIG, OP_CHECKMULTISIGVERIFY cases)', 'script/interpreter.cpp: EvalChecksig', 'script/interpreter.cpp: EvalChecksigPreTapscript',
      'script/interpreter.cpp: EvalChecksigTapscript', 'script/interpreter.cpp: CheckSignatureEncoding', 'script/interpreter.cpp: CheckPubKeyEncoding', 'script/interpreter.cpp: IsValidSignatureEncoding', 'script/interpreter.cpp: IsLowDERSignature',
      'script/interpreter.cpp: IsDefinedHashtypeSignature', 'script/interpreter.cpp: IsCompressedPubKey / IsCompressedOrUncompressedPubKey']
def mk(name, opsel, n, w, k, extra, tier='quick', timeout=3000, backend=None):
    defs = ['H_SIG', f'H_OPSEL(op)=({opsel})', f'H_N={n}', f'VERIF_STACK_W={max(w, 1)}', f'VERIF_ITEM_CAP={k}', 'VERIF_SCRIPT_CAP=' + ('12' if 'VERIF_ORACLE_N=12' in extra else '24'), 'H_AN=0'] + extra
    return Query(name, 'harness', unit_step_sig, 'h_step', defines=defs, unwind=(14 if 'VERIF_ORACLE_N=12' in extra else max(k + 2, 26)), timeout=timeout, object_bits=12, tier=tier, backend=backend,
                 bounded=f'stack element storage {k} bytes (signatures <= 73, keys <= 65 bytes fit when >= 80)', functions=FN, replay=REPLAY_STEP)
def sig_queries():
    qs = []
    # CHECKSIG / CHECKSIGVERIFY: legacy+v0 (DER, low-S, hash type, key type, NULLFAIL, FindAndDelete/CONST_SCRIPTCODE), tapscript (budget, key versions), taproot key path
    for op, nm in ((0xac, 'checksig'), (0xad, 'checksigverify')):
        qs.append(mk(f'sig_{nm}_pre', f'op=={op:#x}', 2, 2, 80, ['H_EXEC=1', 'H_CANARY_ERR', 'H_SV_PRE']))
        qs.append(mk(f'sig_{nm}_tapscript', f'op=={op:#x}', 2, 2, 80, ['H_EXEC=1', 'H_CANARY_ERR', 'H_SV=3']))
        qs.append(mk(f'sig_{nm}_taproot', f'op=={op:#x}', 2, 2, 80, ['H_EXEC=1', 'H_CANARY_ERR', 'H_SV_TAPROOT']))
        for j in range(2):
            qs.append(mk(f'sig_{nm}_depth{j}', f'op=={op:#x}', j, max(j, 1), 16, ['H_EXEC=1', 'H_BASE0', 'H_NO_OK', 'H_CANARY_ERR']))
    qs.append(mk('sig_checksigadd_tapscript', 'op==0xba', 3, 3, 40, ['H_EXEC=1', 'H_CANARY_ERR', 'H_CANARY_EXC', 'H_SV=3']))
    qs.append(mk('sig_checksigadd_pre', 'op==0xba', 3, 3, 16, ['H_EXEC=1', 'H_CANARY_ERR', 'H_NO_OK', 'H_SV_PRE']))
    for j in range(3):
        qs.append(mk(f'sig_checksigadd_depth{j}', 'op==0xba', j, max(j, 1), 16, ['H_EXEC=1', 'H_BASE0', 'H_NO_OK', 'H_CANARY_ERR', 'H_SV=3']))
    # CHECKMULTISIG(VERIFY): case split over the number of keys / signatures (window = nk + ns + 3 items)
    # (2 keys / 2 signatures and 3 keys were tried in the thorough tier: the external solver fails or cbmc runs out of memory at 14 GB - removed)
    for (nk, ns, tier) in ((0, 0, 'quick'), (1, 0, 'quick'), (1, 1, 'quick'), (2, 1, 'thorough')):
        n = nk + ns + 3
        for op, nm in ((0xae, 'multisig'), (0xaf, 'multisigverify')):
            if nm == 'multisigverify' and (nk, ns) not in ((1, 0), (2, 1)): continue
            q = mk(f'sig_{nm}_{nk}of{ns}', f'op=={op:#x}', n, n, 10, ['VERIF_ORACLE_N=12', 'H_EXEC=1', 'H_BASE0', 'H_CANARY_ERR', f'H_MS_KEYS={nk}', f'H_MS_SIGS={ns}', 'H_SV_PRE'], tier)
            q.backend = 'kissat'; q.timeout = 6000
            q.bounded = f'OP_CHECKMULTISIG with exactly {nk} keys and {ns} signatures (consensus maximum 20) on a stack holding exactly its arguments (a symbolic number of hidden items makes the decoded counts symbolic and the loops unbounded); element storage 10 bytes (DER signatures of 9..10 bytes)'
            qs.append(q)
    # count limits and stack shortage of multisig: symbolic key count, nothing else needed
    qs.append(mk('sig_multisig_counts', 'op==0xae', 1, 1, 16, ['H_EXEC=1', 'H_BASE0', 'H_NO_OK', 'H_CANARY_ERR', 'H_CANARY_EXC', 'H_SV_PRE']))
    qs.append(mk('sig_multisig_tapscript', 'op==0xae||op==0xaf', 1, 1, 16, ['H_EXEC=1', 'H_BASE0', 'H_NO_OK', 'H_CANARY_ERR', 'H_SV=3']))
    return qs
from props import units_leaf as ULF
def fad(n, tier):
    return Query(f'leaf_findanddelete_n{n}', 'harness', ULF.unit_decode, 'h_findanddelete', defines=['VERIF_ITEM_CAP=16', f'VERIF_SCRIPT_CAP={n}', f'H_SCRIPT_N={n}'], unwind=n + 4, timeout=3000, object_bits=10, tier=tier, backend='kissat',
                 functions=['script/interpreter.cpp: FindAndDelete'], bounded=f'all scripts of at most {n} bytes and patterns of at most 3 bytes (loop over operations: no invariant proof)')
from props import C03 as _C03
# the tapscript signature budget the opcode contracts start from is set up in Instance::configure_tx_txin: its contract is re-run here
QUERIES = sig_queries() + [fad(4, 'quick'), fad(5, 'thorough'), fad(7, 'thorough'), _C03.CFG_TAPROOT]
META = {'level': 'proof', 'trusted_base': TRUSTED + ['stubs/step_env_sig.h: ECDSA / Schnorr verification, low-S test and FindAndDelete as oracles'],
 'assumptions': ASSUME_COMMON + [
   "claimed: the script-level half - which signature/key pairs are submitted for verification, in which order, under which encoding rules and flags, what is charged, and what is pushed for each oracle verdict",
   "not applicable: that the digest handed to verification is the legacy / BIP143 / BIP341 message (SignatureHash*, CTransactionSignatureSerializer use the ::Serialize / HashWriter template framework, Span and std::optional - outside the C++ front end) and that secp256k1 decides ECDSA / BIP340 validity (elliptic-curve arithmetic): these are the oracles",
   "inside the opcode queries FindAndDelete is an oracle (its count drives CONST_SCRIPTCODE; its effect on the scriptCode passed to the ECDSA oracle is not observable there); the real FindAndDelete is proved separately against its definition for all scripts of <= 5 (7) bytes",
   "--pretend-valid tables: one listed pair",
 ],
 'explanation': 'per-opcode contract of the real signature-opcode code (StepScript cases + EvalChecksig* + encoding predicates, all sliced verbatim) against harness/spec_sig.h with cryptographic verdicts as oracles'}
MANIFEST = {
 'text': 'Script-level half: for every stack, flag set and oracle verdict, OP_CHECKSIG(VERIFY) in legacy/segwit-v0/tapscript/taproot-key-path, OP_CHECKSIGADD and OP_CHECKMULTISIG(VERIFY) (case split: 0 and 1 keys without signature, 1 key with 1 signature; 2 keys with 1 signature in the thorough tier) submit exactly the prescribed signature/key pairs in order, select exactly the encoding error the active flags prescribe (DER, low-S, hash type, key type, witness key type, NULLFAIL, NULLDUMMY, CONST_SCRIPTCODE), charge 50 units of tapscript budget per non-empty signature before looking at the key, enforce key/signature count limits with the op-count charge, and push the prescribed result.',
 'note': 'Digest construction (SignatureHash*) and signature validity (secp256k1) are oracles: not applicable. Multisig with 2 signatures or 3 and more keys is not decided (the queries do not finish: solver failure / 14 GB); element storage 10 bytes in multisig queries.',
 'technique': 'assume/assert contracts of the real signature-opcode code with oracle stubs (ghost-logged arguments), discharged by CBMC per opcode / script version / key-count case',
 'design_ref': 'DESIGN.md 6 (C02)'}
