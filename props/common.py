TRUSTED = [
 "CBMC 6.11.0: C++ front end (-std=c++11, -nostdinc), goto-instrument --dfcc contract instrumentation, symex, MiniSat back end",
 "tools/slice.py: verbatim extraction by anchor + brace matching, and the must-fire rewrite rules of DESIGN.md 3.1",
 "stubs/verif_std.h: model of std::vector<unsigned char>, std::vector<std::vector<unsigned char>> (ghost-prefix window), std::string, exceptions (throw sites -> expectation check)",
 "extern \"C\" flattening wrappers in props/units_*.py (no logic: copy vector <-> pointer,length)",
 "spec functions in contracts/spec_*.h (transcribed from the BIPs / the script-number definition, not from the code)",
 "x86-64 machine integers as modelled by CBMC; g++ 12 for native replay",
]
ASSUME_COMMON = [
 "assumed: stubs/verif_std.h faithfully models the libstdc++ containers it replaces (differential self-test: tools/stub_selftest.sh)",
 "assumed: goto-cc's C++ front end compiles the sliced text with the semantics g++ gives it",
 "exceptions: a throw in sliced code is rewritten to VERIF_THROW(kind) = assert(kind == the failure the spec prescribes for this input); assume(false) (path ends at the throw)",
]
