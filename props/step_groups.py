"""Opcode groups of the L1 step contract (one or more CBMC queries per group) and the completeness check that every
`case OP_x:` label of the real switch belongs to exactly one group."""
import re
from slice import SliceError, block

# name, opcode predicate over `op`, operands needed (k), net growth of the window (g), extra defines, bytes covered
def _rng(a, b): return f"(op>={a:#x}&&op<={b:#x})"
def _any(*xs): return '(' + '||'.join(f"op=={x:#x}" for x in xs) + ')'

GROUPS = [
 # name            predicate                         k  g  extra                      opcode bytes
 ('push',          _rng(0x00, 0x4e),                 0, 1, ['H_CANARY_ERR'],           list(range(0x00, 0x4f))),
 ('smallint',      '(op==0x4f||' + _rng(0x51, 0x60) + ')', 0, 1, [],                  [0x4f] + list(range(0x51, 0x61))),
 ('nop',           _any(0x61),                       0, 0, [],                         [0x61]),
 ('cltv',          _any(0xb1),                       1, 0, ['H_CANARY_ERR', 'H_CANARY_EXC'], [0xb1]),
 ('csv',           _any(0xb2),                       1, 0, ['H_CANARY_ERR', 'H_CANARY_EXC'], [0xb2]),
 ('nopx',          '(op==0xb0||' + _rng(0xb3, 0xb9) + ')', 0, 0, ['H_CANARY_ERR'],    [0xb0] + list(range(0xb3, 0xba))),
 ('if',            _any(0x63, 0x64),                 1, 0, ['H_CANARY_ERR'],           [0x63, 0x64]),
 ('else_endif',    _any(0x67, 0x68),                 0, 0, ['H_CANARY_ERR'],           [0x67, 0x68]),
 ('verify',        _any(0x69),                       1, 0, ['H_CANARY_ERR'],           [0x69]),
 ('return',        _any(0x6a),                       0, 0, ['H_CANARY_ERR', 'H_NO_OK'], [0x6a]),
 ('toalt',         _any(0x6b),                       1, 1, [],                         [0x6b]),
 ('fromalt',       _any(0x6c),                       0, 1, ['H_AN=1'],                 [0x6c]),
 ('2drop',         _any(0x6d),                       2, 0, [],                         [0x6d]),
 ('2dup',          _any(0x6e),                       2, 2, [],                         [0x6e]),
 ('3dup',          _any(0x6f),                       3, 3, [],                         [0x6f]),
 ('2over',         _any(0x70),                       4, 2, [],                         [0x70]),
 ('2rot',          _any(0x71),                       6, 0, [],                         [0x71]),
 ('2swap',         _any(0x72),                       4, 0, [],                         [0x72]),
 ('ifdup',         _any(0x73),                       1, 1, [],                         [0x73]),
 ('depth',         _any(0x74),                       0, 1, [],                         [0x74]),
 ('drop',          _any(0x75),                       1, 0, [],                         [0x75]),
 ('dup',           _any(0x76),                       1, 1, [],                         [0x76]),
 ('nip',           _any(0x77),                       2, 0, [],                         [0x77]),
 ('over',          _any(0x78),                       2, 1, [],                         [0x78]),
 ('rot',           _any(0x7b),                       3, 0, [],                         [0x7b]),
 ('swap',          _any(0x7c),                       2, 0, [],                         [0x7c]),
 ('tuck',          _any(0x7d),                       2, 1, [],                         [0x7d]),
 ('size',          _any(0x82),                       1, 1, [],                         [0x82]),
 ('equal',         _any(0x87, 0x88),                 2, 0, ['H_CANARY_ERR'],           [0x87, 0x88]),
 ('unary',         _any(0x8b, 0x8c, 0x8f, 0x90, 0x91, 0x92), 1, 0, ['H_CANARY_EXC'],  [0x8b, 0x8c, 0x8f, 0x90, 0x91, 0x92]),
 ('addsub',        _any(0x93, 0x94),                 2, 0, ['H_CANARY_EXC'],           [0x93, 0x94]),
 ('boolcmp',       _rng(0x9a, 0xa2),                 2, 0, ['H_CANARY_EXC', 'H_CANARY_ERR'], list(range(0x9a, 0xa3))),
 ('minmax',        _any(0xa3, 0xa4),                 2, 0, ['H_CANARY_EXC'],           [0xa3, 0xa4]),
 ('within',        _any(0xa5),                       3, 0, ['H_CANARY_EXC'],           [0xa5]),
 ('hash',          _rng(0xa6, 0xaa),                 1, 0, [],                         list(range(0xa6, 0xab))),
 ('codesep',       _any(0xab),                       0, 0, ['H_CANARY_ERR'],           [0xab]),
 ('badop',         '(' + _any(0x50, 0x62, 0x65, 0x66, 0x89, 0x8a) + '||op>=0xbb)', 0, 0, ['H_CANARY_ERR', 'H_NO_OK'], [0x50, 0x62, 0x65, 0x66, 0x89, 0x8a] + list(range(0xbb, 0x100))),
 ('disabled_gate', '(' + _rng(0x7e, 0x81) + '||' + _rng(0x83, 0x86) + '||op==0x8d||op==0x8e||' + _rng(0x95, 0x99) + ')', 0, 0, ['H_CANARY_ERR', 'H_NO_OK', 'H_ALLOW_DISABLED=0'],
                   [0x7e, 0x7f, 0x80, 0x81, 0x83, 0x84, 0x85, 0x86, 0x8d, 0x8e, 0x95, 0x96, 0x97, 0x98, 0x99]),
]
PICKROLL = [0x79, 0x7a]
SIG_OPS = [0xac, 0xad, 0xae, 0xaf, 0xba]

def check_case_coverage(step_text, enum_text):
    """every case label of the real switch must be covered by exactly one group (or be a signature / pick-roll opcode)"""
    vals = {}
    for m in re.finditer(r'^\s*(OP_\w+)\s*=\s*(0x[0-9a-fA-F]+|\w+)\s*,', enum_text, re.M):
        v = m.group(2)
        vals[m.group(1)] = int(v, 16) if v.startswith('0x') else vals.get(v)
    labels = re.findall(r'\bcase (OP_\w+)\s*:', re.sub(r'//[^\n]*', '', step_text))
    cover = {}
    for g in GROUPS:
        for b in g[5]:
            cover[b] = cover.get(b, 0) + 1
    for b in PICKROLL + SIG_OPS:
        cover[b] = cover.get(b, 0) + 1
    for b in range(256):
        if cover.get(b, 0) != 1:
            raise SliceError(f"opcode byte {b:#x} is covered by {cover.get(b, 0)} query groups (must be exactly 1)")
    for l in labels:
        if l not in vals or vals[l] is None:
            raise SliceError(f"case label {l} has no value in the sliced opcode enum")
    return sorted(set(labels))
