"""unit for C08: the non-interactive driver fragment of main() in btcdeb.cpp (`if (pipe_in || pipe_out) { ... }`)"""
from slice import *

def unit_batch():
    t = '#include "verif_std.h"\n#include "batch_env.h"\n'
    frag = block('btcdeb.cpp', r'^    if \(pipe_in \|\| pipe_out\) \{$', trailing=None)
    # R-PARTIAL: the if-statement (without its else-branch, the interactive command loop) as the body of a function; reaching
    # the end of the block without `return` is reported as -1
    t += 'static int verif_batch_driver() {\n' + frag + '    return -1;\n}\n'
    return t + '\n#include "h_batch.h"\n'

def unit_listing_line():
    """one listing line of main() in btcdeb.cpp: the body of `while (script->GetOp(it, opcode, vchPushValue)) { ... }` in the listing
    builder (R-PARTIAL), with the declaration of the line buffer that precedes the loops"""
    t = '#include "verif_std.h"\n#include "listing_env.h"\n'
    src_decl = between('btcdeb.cpp', r'^    char buf\[1024\];$', r'^', include_end=False)
    h, body = body_of('btcdeb.cpp', r'^        while \(script->GetOp\(it, opcode, vchPushValue\)\) \{$')
    # R-TYPES: the temporary copy std::vector<uint8_t>(b, e) handed to HexStr is dropped (HexStr only reads the bytes; the stub goes by length)
    body = rewrite(body, [(r'std::vector<uint8_t>\(vchPushValue\.begin\(\), vchPushValue\.end\(\)\)', 'vchPushValue', None)])
    t += 'static void verif_listing_line(int& i, char** script_lines, opcodetype opcode, verif_bytes& vchPushValue) {\n' + src_decl + '    ' + body.strip() + '\n}\n'
    return t + '\n#include "h_listing.h"\n'

def unit_stdin_long():
    """the stdin script reader fragment of main() (btcdeb.cpp) for LONG lines: from `if (pipe_in) {` to the assignment of script_str"""
    t = '#include "verif_std.h"\n#include "stdin_long_env.h"\n'
    h, body = body_of('btcdeb.cpp', r'^    if \(pipe_in\) \{$')
    if 'script_str =' not in body:
        raise SliceError("stdin reader: the block after `if (pipe_in) {` does not assign script_str")
    # R-LIBC: libc calls are renamed to their models (CBMC links its own strlen / fgets models over same-named C++ functions)
    body = rewrite(body, [(r'\b(fgets|getline|strlen|strdup|free)\(', r'verif_\1(', None)])
    t += 'static char* verif_stdin_script_long() {\n    char* script_str = 0;\n    ' + body.strip() + '\n    return script_str;\n}\n'
    return t + '\n#include "h_stdin_long.h"\n'

def unit_stdin_short():
    """the stdin script reader fragment of main() (btcdeb.cpp), byte-exact model for short lines (harness/h_stdin2.h)"""
    t = '#include "verif_std.h"\n#include "stdin_short_env.h"\n'
    h, body = body_of('btcdeb.cpp', r'^    if \(pipe_in\) \{$')
    if 'script_str =' not in body:
        raise SliceError("stdin reader: the block after `if (pipe_in) {` does not assign script_str")
    # R-LIBC: libc calls are renamed to their models (CBMC links its own strlen / free models over same-named C++ functions)
    body = rewrite(body, [(r'\b(fgets|getline|strlen|strdup|free)\(', r'verif_\1(', None)])
    t += 'static char* verif_stdin_script() {\n    char* script_str = 0;\n    ' + body.strip() + '\n    return script_str;\n}\n'
    return t + '\n#include "h_stdin2.h"\n'

def unit_listing_count():
    """the section / line-count part of the listing builder in main() (btcdeb.cpp): from the declaration of script_ptrs to the
    allocation of script_lines (R-PARTIAL), as a function of the session objects it reads"""
    t = '#include "verif_std.h"\n#include "listcount_env.h"\n'
    frag = between('btcdeb.cpp', r'^    std::vector<CScript\*> script_ptrs;$', r'^    script_lines = \(char\*\*\)malloc\(sizeof\(char\*\) \* count\);$', include_end=False)
    frag = rewrite(frag, [(r'std::vector<CScript\*>', 'verif_scriptptrs', 1), (r'std::vector<std::string>', 'verif_strlist', 2),       # R-TYPES
                          (r'const valtype& p2sh_script_val = ', 'const valtype& p2sh_script_val = ', None)])
    if re.search(r'std::vector', re.sub(r'//[^\n]*', '', frag)):
        raise SliceError("listing count fragment: a std::vector form without rewrite rule is left")
    t += 'static void verif_listing_sections(InterpreterEnv* env, Instance& instance, verif_scriptptrs& out_ptrs, bool& out_has_p2sh, size_t& out_tc_lines) {\n' + frag
    t += '    out_ptrs = script_ptrs; out_has_p2sh = has_p2sh; out_tc_lines = tc_desc.size();\n}\n'
    return t + '\n#include "h_listcount.h"\n'
