"""unit for C08: the non-interactive driver fragment of main() in btcdeb.cpp (`if (pipe_in || pipe_out) { ... }`)"""
from slice import *

def unit_batch():
    t = '#include "verif_std.h"\n#include "batch_env.h"\n'
    frag = block('btcdeb.cpp', r'^    if \(pipe_in \|\| pipe_out\) \{$', trailing=None)
    # R-PARTIAL: the if-statement (without its else-branch, the interactive command loop) as the body of a function; reaching
    # the end of the block without `return` is reported as -1
    t += 'static int verif_batch_driver() {\n' + frag + '    return -1;\n}\n'
    return t + '\n#include "h_batch.h"\n'

def unit_listing_line():
    """one listing line of main() in btcdeb.cpp: the body of `while (script->GetOp(it, opcode, vchPushValue)) { ... }` in the listing
    builder (R-PARTIAL), with the declaration of the line buffer that precedes the loops"""
    t = '#include "verif_std.h"\n#include "listing_env.h"\n'
    src_decl = between('btcdeb.cpp', r'^    char buf\[1024\];$', r'^', include_end=False)
    h, body = body_of('btcdeb.cpp', r'^        while \(script->GetOp\(it, opcode, vchPushValue\)\) \{$')
    # R-TYPES: the temporary copy std::vector<uint8_t>(b, e) handed to HexStr is dropped (HexStr only reads the bytes; the stub goes by length)
    body = rewrite(body, [(r'std::vector<uint8_t>\(vchPushValue\.begin\(\), vchPushValue\.end\(\)\)', 'vchPushValue', None)])
    t += 'static void verif_listing_line(int& i, char** script_lines, opcodetype opcode, verif_bytes& vchPushValue) {\n' + src_decl + '    ' + body.strip() + '\n}\n'
    return t + '\n#include "h_listing.h"\n'

def unit_stdin_long():
    """the stdin script reader fragment of main() (btcdeb.cpp) for LONG lines: from `if (pipe_in) {` to the assignment of script_str"""
    t = '#include "verif_std.h"\n#include "stdin_long_env.h"\n'
    h, body = body_of('btcdeb.cpp', r'^    if \(pipe_in\) \{$')
    if 'script_str =' not in body:
        raise SliceError("stdin reader: the block after `if (pipe_in) {` does not assign script_str")
    # R-LIBC: libc calls are renamed to their models (CBMC links its own strlen / fgets models over same-named C++ functions)
    body = rewrite(body, [(r'\b(fgets|getline|strlen|strdup|free)\(', r'verif_\1(', None)])
    t += 'static char* verif_stdin_script_long() {\n    char* script_str = 0;\n    ' + body.strip() + '\n    return script_str;\n}\n'
    return t + '\n#include "h_stdin_long.h"\n'

def unit_stdin_short():
    """the stdin script reader fragment of main() (btcdeb.cpp), byte-exact model for short lines (harness/h_stdin2.h)"""
    t = '#include "verif_std.h"\n#include "stdin_short_env.h"\n'
    h, body = body_of('btcdeb.cpp', r'^    if \(pipe_in\) \{$')
    if 'script_str =' not in body:
        raise SliceError("stdin reader: the block after `if (pipe_in) {` does not assign script_str")
    # R-LIBC: libc calls are renamed to their models (CBMC links its own strlen / free models over same-named C++ functions)
    body = rewrite(body, [(r'\b(fgets|getline|strlen|strdup|free)\(', r'verif_\1(', None)])
    t += 'static char* verif_stdin_script() {\n    char* script_str = 0;\n    ' + body.strip() + '\n    return script_str;\n}\n'
    return t + '\n#include "h_stdin2.h"\n'

def unit_listing_count():
    """the section / line-count part of the listing builder in main() (btcdeb.cpp): from the declaration of script_ptrs to the
    allocation of script_lines (R-PARTIAL), as a function of the session objects it reads"""
    t = '#include "verif_std.h"\n#include "listcount_env.h"\n'
    frag = between('btcdeb.cpp', r'^    std::vector<CScript\*> script_ptrs;$', r'^    script_lines = \(char\*\*\)malloc\(sizeof\(char\*\) \* count\);$', include_end=False)
    frag = rewrite(frag, [(r'std::vector<CScript\*>', 'verif_scriptptrs', 1), (r'std::vector<std::string>', 'verif_strlist', 2),       # R-TYPES
                          (r'const valtype& p2sh_script_val = ', 'const valtype& p2sh_script_val = ', None)])
    if re.search(r'std::vector', re.sub(r'//[^\n]*', '', frag)):
        raise SliceError("listing count fragment: a std::vector form without rewrite rule is left")
    t += 'static void verif_listing_sections(InterpreterEnv* env, Instance& instance, verif_scriptptrs& out_ptrs, bool& out_has_p2sh, size_t& out_tc_lines) {\n' + frag
    t += '    out_ptrs = script_ptrs; out_has_p2sh = has_p2sh; out_tc_lines = tc_desc.size();\n}\n'
    return t + '\n#include "h_listcount.h"\n'

def unit_cfg_release():
    """the argument buffers of Instance::configure_tx_txin: the loop that copies the remaining witness items (strdup) and the loop
    that releases them after parse_stack_args (R-PARTIAL: two fragments of the function, joined in one wrapper)"""
    t = '#include "verif_std.h"\n#include "cfgrel_env.h"\n'
    push = block('instance.cpp', r'^        for \(size_t i = 0; i < wstack_to_stack; i\+\+\) \{$', trailing=None)
    rel = between('instance.cpp', r'^    parse_stack_args\(push_del\);$', r'^    // // extract pubkeys from script$', include_end=False)
    # R-DELETE: `delete p;` -> verif_delete(p) (the deallocation function used is what the contract is about)
    rel = rewrite(rel, [(r'\bdelete ([^;\n]+);', r'verif_delete(\1);', None)])
    push = rewrite(push, [(r'\bstrdup\(', 'verif_strdup(', None)]); rel = rewrite(rel, [(r'\bfree\(', 'verif_free(', None)])
    t += 'static void verif_cfg_buffers(verif_stack& wstack, size_t wstack_to_stack) {\n    verif_cptrvec push_del;\n' + push + rel + '}\n'
    return t + '\n#include "h_cfgrel.h"\n'

def unit_addr_to_spk():
    """Value::do_addr_to_spk (value.h): the address -> scriptPubKey transform, with the base58check decoder as an oracle"""
    from props import units_enc as UE
    t = '#include "verif_std.h"\n#include "enc_env.h"\n'
    t += block('script/script.h', r'^enum opcodetype')
    t += block('script/script.h', r'^class CScriptNum$')
    t += UE.cscript_members()
    t += '#include "addrspk_env.h"\n'
    f = block('value.h', r'^    void do_addr_to_spk\(\) \{', trailing=None)
    t += 'struct Value {\n    verif_bytes data; int type;\n    void do_base58chkdec() { verif_base58chkdec_oracle(data); }\n' + f + '};\n'
    t = rewrite(t, R_TYPES + R_LIMITS)
    t = r_throw(t, THROW_TABLE)
    return t + '\n#include "h_addrspk.h"\n'

def unit_bech32dec_head():
    """Value::do_bech32dec (value.h), first part: decoding and the read of the witness version symbol (R-PARTIAL: the bit-regrouping
    through ConvertBits<> with a lambda that follows is outside the front end)"""
    t = '#include "verif_std.h"\n#include "bech_env.h"\n'
    frag = between('value.h', r'^        bech32::DecodeResult result = bech32::Decode\(str\);$', r'^        // data = r\.second;$', include_end=False)
    frag = rewrite(frag, [(r'auto bech = result\.data;', 'verif_bytes bech = result.data;', 1),      # R-AUTO
                          (r'return;', 'return -1;', None)])
    t += 'static int verif_bech32dec_head(const std::string& str) {\n' + frag + '    return version;\n}\n'
    return t + '\n#include "h_bech.h"\n'

def unit_cfg_p2sh_embedded():
    """the P2SH-embedded branch of the witness part of Instance::configure_tx_txin (`if (scriptSig.size() > 0) { ... }`): extraction of
    the witness program from the scriptSig and its check against the HASH160 of the scriptPubKey (R-PARTIAL)"""
    t = '#include "verif_std.h"\n#include "cfgp2sh_env.h"\n'
    blk = block('instance.cpp', r'^        if \(scriptSig\.size\(\) > 0\) \{$', trailing=None)
    t += ('static bool verif_cfg_p2sh_embedded(CScript& scriptSig, CScript& scriptPubKey, CScript& validation, Value& hashsrc, std::string& source, opcodetype& opcode, verif_bytes& pushval) {\n'
          + blk + '    return true;\n}\n')
    t = rewrite(t, R_TYPES)
    return t + '\n#include "h_cfgp2sh.h"\n'

def unit_verify_sig_head():
    """Value::verify_sig (value.cpp), argument checks up to the construction of the sighash (R-PARTIAL: the signature verification that
    follows is libsecp256k1)"""
    t = '#include "verif_std.h"\n#include "vsig_env.h"\n'
    t += between('value.cpp', r'^#define abort\(msg\.\.\.\) ', r'^', include_end=False)
    frag = between('value.cpp', r'^void Value::verify_sig\(bool compact\) \{$', r'^    if \(args\[1\]\.size\(\) == 32\) \{$', include_end=False)
    frag = rewrite(frag, [(r'void Value::verify_sig\(bool compact\) \{', 'void Value::verify_sig_head(bool compact) {', 1)])
    t += rewrite(frag, R_TYPES) + '    g_vsig_head_done = 1;\n}\n'
    return t + '\n#include "h_vsig.h"\n'

def unit_hashtype_str():
    """hashtype_str (debugger/interpreter.h): the hash-type text of the signing log"""
    t = '#include "verif_std.h"\n#include "hashtype_env.h"\n'
    t += between('script/interpreter.h', r'^/\*\* Signature hash types/flags \*/$', r'^/\*\* Script verification flags\.$', include_end=False)
    f = block('debugger/interpreter.h', r'^static inline std::string hashtype_str\(int h\) \{', trailing=None)
    t += f
    return t + '\n#include "h_hashtype.h"\n'

def unit_jacobi_head():
    """Value::do_jacobi_symbol (value.cpp), argument handling up to the first reduction `n = n % k` (R-PARTIAL: the symbol loop on 256-bit
    numbers that follows is number theory)"""
    t = '#include "verif_std.h"\n#include "jacobi_env.h"\n'
    t += between('value.cpp', r'^#define abort\(msg\.\.\.\) ', r'^', include_end=False)
    frag = between('value.cpp', r'^void Value::do_jacobi_symbol\(\) \{$', r'^    while \(n\.bits\(\) > 0\) \{$', include_end=False)
    frag = rewrite(frag, [(r'void Value::do_jacobi_symbol\(\) \{', 'void Value::jacobi_head() {', 1),
                          (r'n = n % k;', 'n = n.operator%(k);', 1)])      # R-OPCALL: overloaded binary % on class operands is not resolved by the front end
    t += rewrite(frag, R_TYPES) + '    g_jacobi_head_done = 1;\n}\n'
    return t + '\n#include "h_jacobi.h"\n'
