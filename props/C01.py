from vf import Query
from props import units_step as US
from props import step_groups as G
from props.common import *
import slice as S

K_QUICK, K_THOROUGH = 40, 64

def unit_step_plain():
    t = US.build()
    G.check_case_coverage(US.step_function(), S.block('script/script.h', r'^enum opcodetype'))
    return t + '\n#include "h_step.h"\n'

FN = ['script/interpreter.cpp: StepScript(ScriptExecutionEnvironment&, CScript::const_iterator&, CScript*)', 'script/interpreter.cpp: CastToBool',
      'script/script.cpp: CheckMinimalPush', 'script/script.h: CScriptNum', 'debugger/see.h: ConditionStack', 'debugger/interpreter.h: _popstack/set_error/set_success']

def step_queries():
    qs = []
    def mk(name, opsel, n, w, extra, tier, k):
        defs = [f'H_OPSEL(op)=({opsel})', f'H_N={n}', f'VERIF_STACK_W={max(w, 1)}', f'VERIF_ITEM_CAP={k}'] + extra
        if not any(e.startswith('H_AN=') for e in extra): defs.append('H_AN=0')
        return Query(name, 'harness', unit_step_plain, 'h_step', defines=defs, unwind=max(k + 2, 34), timeout=1500, object_bits=12,
                     tier=tier, bounded=f'stack element storage {k} bytes (consensus maximum 520); pushes of 521..10000 bytes modelled by length only', functions=FN)
    NUMERIC = {'unary', 'addsub', 'boolcmp', 'minmax', 'within', 'cltv', 'csv'}
    NOSPLIT = {'push', 'badop', 'smallint', 'nopx', 'disabled_gate'}     # opcode ranges kept symbolic; every other group: one query per opcode byte (a symbolic opcode multiplies the SAT cost)
    for (name, opsel, k, g, extra, bytes_) in G.GROUPS:
        kq, kt = (16, 24) if name in NUMERIC else (K_QUICK, K_THOROUGH)
        if name == 'equal': kq, kt = 24, 40
        # executed branch, enough operands: top k items symbolic, any number of hidden items below (all depths)
        w = k + g
        if any(e.startswith('H_AN=') for e in extra): w = max(w, 2)
        if name == 'toalt': w = max(w, 1)
        variants = [(f'step_{name}_{b:02x}', f'op=={b:#x}') for b in bytes_] if name not in NOSPLIT else [(f'step_{name}', opsel)]
        for qn, sel in variants:
            qs.append(mk(qn, sel, k, w, extra + ['H_EXEC=1'], 'quick', kq))
            qs.append(mk(f'{qn}_k{kt}', sel, k, w, extra + ['H_EXEC=1'], 'thorough', kt))
        # too few operands: exactly j < k items and nothing below
        for j in range(k):
            ex = [e for e in extra if not e.startswith('H_CANARY') and e != 'H_NO_OK'] + ['H_EXEC=1', 'H_BASE0', 'H_NO_OK', 'H_CANARY_ERR']
            qs.append(mk(f'step_{name}_depth{j}', opsel, j, max(j + g, 1), ex, 'quick', 16))
    # alt stack empty for FROMALTSTACK
    qs.append(mk('step_fromalt_empty', 'op==0x6c', 0, 2, ['H_AN=0', 'H_ABASE0', 'H_EXEC=1', 'H_NO_OK', 'H_CANARY_ERR'], 'quick', K_QUICK))
    # PICK / ROLL: data-dependent depth -> complete stacks of 2..7 items (bounded stand-in for deeper stacks)
    for n in range(0, 8):
        ex = ['H_EXEC=1', 'H_BASE0'] + (['H_NO_OK', 'H_CANARY_ERR'] if n < 2 else ['H_CANARY_ERR', 'H_CANARY_EXC'])
        for b in (0x79, 0x7a):
            q = mk(f'step_pickroll_{b:02x}_n{n}', f'op=={b:#x}', n, max(n, 1), ex, 'quick' if n <= 5 else 'thorough', 16)
            q.bounded = f'OP_PICK/OP_ROLL on complete stacks of exactly {n} items (bounded stand-in: depth <= 7); element storage 16 bytes'
            qs.append(q)
    # unexecuted branch: every opcode byte at once
    qs.append(mk('step_unexecuted', 'op<=0xff', 0, 1, ['H_EXEC=0', 'H_CANARY_ERR'], 'quick', K_QUICK))
    return qs

QUERIES = step_queries()
META = {
 'level': 'proof',
 'trusted_base': TRUSTED,
 'assumptions': ASSUME_COMMON + [
   "contract of CScript::GetOp assumed at L1 (returns the decoded opcode, its push payload and the encoded length); proved for the real GetScriptOp in the leaf queries",
   "hash functions, CheckLockTime/CheckSequence are uninterpreted oracles (ghost-logged arguments, arbitrary answers)",
   "signature opcodes (CHECKSIG*, CHECKMULTISIG*, CHECKSIGADD) are decided under C02, re-enabled opcodes under C17",
   "pre-state well-formedness: sigversion in {BASE, WITNESS_V0, TAPSCRIPT}, 0 <= nOpCount <= 201, ConditionStack representation invariant, stack depth <= 10^9",
 ],
 'explanation': 'per opcode group: requires/ensures contract of the real StepScript against an executable transcription of the consensus rules (harness/spec_step.h); all stack depths via the ghost-prefix window; flags, script version, op count, conditional state fully symbolic',
}
MANIFEST = {
 'text': 'Deductive check of the real interpreter step (script/interpreter.cpp StepScript, sliced verbatim each run) against an executable transcription of the consensus rules, one contract per opcode group: for every stack depth (ghost-prefix window), every flag set, all three script versions, any op count and conditional-nesting state, the post-state (main stack, alt stack, nesting, op count, code-separator bookkeeping), the success/error verdict and the raised exception kind equal what the rules prescribe, and nothing else changes. Element storage is bounded (40/64 bytes) and PICK/ROLL depth is bounded (7): those are reported as bounded stand-ins, not proofs.',
 'note': 'Trusted: CBMC 6.11, slicer rewrite rules, stub containers (ghost-prefix window model), the spec transcription harness/spec_step.h, GetOp/hash/lock-time oracles. Not covered here: signature opcodes (C02), extended opcodes (C17), session-level stepping (C04/C12), output formatting.',
 'technique': 'assume/assert function contract (requires/ensures/frame) of the real StepScript per opcode group, discharged by CBMC over fully symbolic pre-states; callee GetOp replaced by its contract; canary obligations guard against vacuity',
 'design_ref': 'DESIGN.md 4 (L1), 6 (C01)',
}
