from vf import Query
from props import units_step as US
from props import step_groups as G
from props.common import *
from props.replay_step import REPLAY_STEP
import slice as S

K_QUICK, K_THOROUGH = 40, 64

def unit_step_plain():
    t = US.build()
    G.check_case_coverage(US.step_function(), S.block('script/script.h', r'^enum opcodetype'))
    return t + '\n#include "h_step.h"\n'

FN = ['script/interpreter.cpp: StepScript(ScriptExecutionEnvironment&, CScript::const_iterator&, CScript*)', 'script/interpreter.cpp: CastToBool',
      'script/script.cpp: CheckMinimalPush', 'script/script.h: CScriptNum', 'debugger/see.h: ConditionStack', 'debugger/interpreter.h: _popstack/set_error/set_success']

def step_queries():
    qs = []
    def mk(name, opsel, n, w, extra, tier, k):
        defs = [f'H_OPSEL(op)=({opsel})', f'H_N={n}', f'VERIF_STACK_W={max(w, 1)}', f'VERIF_ITEM_CAP={k}'] + extra
        if not any(e.startswith('H_AN=') for e in extra): defs.append('H_AN=0')
        return Query(name, 'harness', unit_step_plain, 'h_step', defines=defs, unwind=max(k + 2, 34), timeout=1500, object_bits=12,
                     tier=tier, bounded=f'stack element storage {k} bytes (consensus maximum 520); pushes of 521..10000 bytes modelled by length only', functions=FN, replay=REPLAY_STEP)
    NUMERIC = {'unary', 'addsub', 'boolcmp', 'minmax', 'within', 'cltv', 'csv'}
    NOSPLIT = {'push', 'badop', 'smallint', 'nopx', 'disabled_gate'}     # opcode ranges kept symbolic; every other group: one query per opcode byte (a symbolic opcode multiplies the SAT cost)
    for (name, opsel, k, g, extra, bytes_) in G.GROUPS:
        kq, kt = (16, 24) if name in NUMERIC else (K_QUICK, K_THOROUGH)
        if name == 'equal': kq, kt = 24, 40
        # executed branch, enough operands: top k items symbolic, any number of hidden items below (all depths)
        w = k + g
        if any(e.startswith('H_AN=') for e in extra): w = max(w, 2)
        if name == 'toalt': w = max(w, 1)
        variants = [(f'step_{name}_{b:02x}', f'op=={b:#x}') for b in bytes_] if name not in NOSPLIT else [(f'step_{name}', opsel)]
        for qn, sel in variants:
            for q_ in (mk(qn, sel, k, w, extra + ['H_EXEC=1'], 'quick', kq), mk(f'{qn}_k{kt}', sel, k, w, extra + ['H_EXEC=1'], 'thorough', kt)):
                if name in NUMERIC: q_.backend = 'kissat'   # arithmetic-heavy: the external solver is 2-20x faster here (and slower on the copy-heavy stack shuffles)
                qs.append(q_)
        # too few operands: exactly j < k items and nothing below
        for j in range(k):
            ex = [e for e in extra if not e.startswith('H_CANARY') and e != 'H_NO_OK'] + ['H_EXEC=1', 'H_BASE0', 'H_NO_OK', 'H_CANARY_ERR']
            qs.append(mk(f'step_{name}_depth{j}', opsel, j, max(j + g, 1), ex, 'quick', 16))
    # alt stack empty for FROMALTSTACK
    qs.append(mk('step_fromalt_empty', 'op==0x6c', 0, 2, ['H_AN=0', 'H_ABASE0', 'H_EXEC=1', 'H_NO_OK', 'H_CANARY_ERR'], 'quick', K_QUICK))
    # PICK / ROLL: data-dependent depth -> complete stacks of 2..7 items (bounded stand-in for deeper stacks)
    for n in range(0, 8):
        ex = ['H_EXEC=1', 'H_BASE0'] + (['H_NO_OK', 'H_CANARY_ERR'] if n < 2 else ['H_CANARY_ERR', 'H_CANARY_EXC'])
        for b in (0x79, 0x7a):
            q = mk(f'step_pickroll_{b:02x}_n{n}', f'op=={b:#x}', n, max(n, 1), ex, 'quick' if n <= 5 else 'thorough', 16)
            q.bounded = f'OP_PICK/OP_ROLL on complete stacks of exactly {n} items (bounded stand-in: depth <= 7); element storage 16 bytes'
            qs.append(q)
    # unexecuted branch: every opcode byte at once
    qs.append(mk('step_unexecuted', 'op<=0xff', 0, 1, ['H_EXEC=0', 'H_CANARY_ERR'], 'quick', K_QUICK))
    return qs

from props import l2_queries as L
from props import units_leaf as ULF
def leaf_queries():
    FL = ['script/script.cpp: GetScriptOp', 'script/script.cpp: CScript::HasValidOps', 'script/script.cpp: CheckMinimalPush', 'script/interpreter.cpp: CastToBool', 'script/script.h: MAX_OPCODE, MAX_SCRIPT_ELEMENT_SIZE']
    def q(name, entry, n, k, tier='quick', bounded=None):
        return Query(name, 'harness', ULF.unit_decode, entry, defines=[f'VERIF_ITEM_CAP={k}', f'VERIF_SCRIPT_CAP={n}', f'H_SCRIPT_N={n}'], unwind=max(n, k) + 4, timeout=1500, object_bits=10, tier=tier, functions=FL, bounded=bounded)
    return [q('leaf_getscriptop', 'h_getscriptop', 24, 24, bounded='operations whose header and payload lie in a 24-byte window of the script, at any offset (payload bytes compared); longer payloads: leaf_getscriptop_len'),
            q('leaf_getscriptop_k80', 'h_getscriptop', 84, 84, 'thorough', bounded='84-byte window (covers OP_PUSHDATA1 with 76+ bytes)'),
            q('leaf_getscriptop_len', 'h_getscriptop_len', 8, 8, bounded='scripts up to 100,000 bytes by length arithmetic (no payload bytes)'),
            q('leaf_hasvalidops', 'h_hasvalidops', 8, 16, bounded='all scripts of at most 8 bytes (loop over operations: no invariant proof)'),
            q('leaf_hasvalidops_n11', 'h_hasvalidops', 11, 16, 'thorough', bounded='all scripts of at most 11 bytes'),
            *[Query(f'leaf_hasvalidops_loop_{h}', 'harness', ULF.unit_hvo_loop, f'h_hvo_loop_{h}', defines=['VERIF_ITEM_CAP=8'], unwind=12, timeout=600,
                    functions=['script/script.cpp: CScript::HasValidOps (loop cut into initialisation, condition, body by R-LOOPCUT; GetScriptOp as contract)']) for h in ('step', 'init', 'exit')],
            q('leaf_casttobool', 'h_casttobool', 8, 80, bounded='values of at most 80 bytes (the loop is length-generic; 520 in the thorough tier)'),
            q('leaf_casttobool_k520', 'h_casttobool', 8, 520, 'thorough'),
            q('leaf_checkminimalpush', 'h_checkminimalpush', 8, 8),
            Query('leaf_locktime', 'harness', ULF.unit_locktime, 'h_locktime', defines=['VERIF_ITEM_CAP=16'], unwind=20, timeout=600,
                  functions=['script/interpreter.cpp: GenericTransactionSignatureChecker<T>::CheckLockTime (BIP65)', 'script/interpreter.cpp: GenericTransactionSignatureChecker<T>::CheckSequence (BIP112)']),
            Query('leaf_condstack', 'harness', ULF.unit_condstack, 'h_condstack', unwind=8, timeout=600, functions=['debugger/see.h: ConditionStack (size, empty, all_true, at, push_back, pop_back, toggle_top)'])]
QUERIES = step_queries() + leaf_queries() + [L.END_OF_SCRIPT, L.INSTANCE_STEP, L.CTOR, L.CONTINUE]
META = {
 'level': 'proof',
 'trusted_base': TRUSTED,
 'assumptions': ASSUME_COMMON + [
   "contract of CScript::GetOp assumed at L1 (returns the decoded opcode, its push payload and the encoded length); proved for the real GetScriptOp in the leaf queries",
   "hash functions are uninterpreted oracles; inside the step queries CheckLockTime/CheckSequence are oracles too (ghost-logged operand, arbitrary answer) - their real bodies are proved separately against BIP65 / BIP112 for all transactions and operands (leaf_locktime)",
   "signature opcodes (CHECKSIG*, CHECKMULTISIG*, CHECKSIGADD) are decided under C02, re-enabled opcodes under C17",
   "pre-state well-formedness: sigversion in {BASE, WITNESS_V0, TAPSCRIPT}, 0 <= nOpCount <= 201, ConditionStack representation invariant, stack depth <= 10^9",
 ],
 'explanation': 'per opcode group: requires/ensures contract of the real StepScript against an executable transcription of the consensus rules (harness/spec_step.h); all stack depths via the ghost-prefix window; flags, script version, op count, conditional state fully symbolic',
}
MANIFEST = {
 'text': 'Deductive check of the real interpreter step (script/interpreter.cpp StepScript, sliced verbatim each run) against an executable transcription of the consensus rules, one contract per opcode group: for every stack depth (ghost-prefix window), every flag set, all three script versions, any op count and conditional-nesting state, the post-state (main stack, alt stack, nesting, op count, code-separator bookkeeping), the success/error verdict and the raised exception kind equal what the rules prescribe, and nothing else changes. The refusal rule for scripts (CScript::HasValidOps) is a loop contract for scripts of every length (init / arbitrary iteration / exit on the real loop body, GetScriptOp as its proved contract). Element storage is bounded (40/64 bytes) and PICK/ROLL depth is bounded (7): those are reported as bounded stand-ins, not proofs.',
 'note': 'Trusted: CBMC 6.11, slicer rewrite rules, stub containers (ghost-prefix window model), the spec transcription harness/spec_step.h, GetOp/hash/lock-time oracles. Not covered here: signature opcodes (C02), extended opcodes (C17), session-level stepping (C04/C12), output formatting.',
 'technique': 'assume/assert function contract (requires/ensures/frame) of the real StepScript per opcode group, discharged by CBMC over fully symbolic pre-states; callee GetOp replaced by its contract; canary obligations guard against vacuity',
 'design_ref': 'DESIGN.md 4 (L1), 6 (C01)',
}
