#!/bin/sh
# builds and runs the differential self-test of the stub containers against libstdc++ (exit 0 = no divergence)
set -e
cd "$(dirname "$0")/.."
mkdir -p build/selftest
exec 9>build/selftest/.lock; flock 9   # checks may run concurrently
# the tested text IS the stub text: only the fixed-width typedef prelude, the assert macro and the libc memcmp model are cut
python3 - <<'PY'
import re
s = open('stubs/verif_std.h').read()
a = s.index('typedef unsigned long size_t;'); b = s.index('#ifndef VERIF_ITEM_CAP')
s = s[:a] + s[b:]
s = s.replace('#define assert(x) __CPROVER_assert((x), "assert() in btcdeb code: " #x)', '')
a = s.index('// libc memcmp / memcpy'); b = s.index('namespace std {', a)
s = s[:a] + s[b:]
s = s.replace('#pragma once', '')
open('stubs/verif_std_native.h', 'w').write(s)
PY
g++ -std=c++17 -O1 -o build/selftest/stub_selftest tools/stub_selftest.cpp
rm -f stubs/verif_std_native.h
build/selftest/stub_selftest
