#!/bin/bash
# seedtest.sh <check-property> <seeded/<id>/<name>> : apply a seeded change to /repo, run the check, undo. Prints the verdict line.
P=$1; D=$2
cd /repo && (git apply "$D/patch.diff" 2>/dev/null || patch -p1 -s --no-backup-if-mismatch -F3 < "$D/patch.diff") || { echo "patch does not apply"; git -C /repo checkout -- .; exit 2; }
cd /verif && ./check $P ${TIER:-quick} > /tmp/seedtest_$$.log 2>&1; rc=$?
git -C /repo checkout -- .
grep -E "^VIOLATION|^KNOWN|^UNDECIDED|^  [a-z]|exit [0-9]" /tmp/seedtest_$$.log | cut -c1-260 | head -${LINES_MAX:-12}
echo "seedtest $P vs $D: rc=$rc"
rm -f /tmp/seedtest_$$.log
