#!/usr/bin/env python3
"""vf.py -- engine of the contract-based checks (DESIGN.md sections 2 and 5).

A *query* = one goto-cc/goto-instrument/cbmc pipeline over a unit sliced from /repo's working tree:
   kind 'dfcc'    : C++ unit with extern "C" wrappers + C contract file; goto-instrument --dfcc --enforce-contract
   kind 'harness' : C++ unit + C++ harness text (requires = __CPROVER_assume, ensures = __CPROVER_assert);
                    used where the contract speaks about C++ objects (CBMC rejects contract clauses in C++ files)
   kind 'c'       : pure C lemma over spec functions (no code from /repo)
Obligation classes (by description prefix):
   'canary:'       must FAIL   (reachability / non-vacuity witness)
   'verif-limit:'  failing => undecided (exit 2)
   anything else   must be SUCCESS; a failure is a candidate VIOLATION
"""
import os, sys, json, time, subprocess, hashlib, shutil, re, signal
from concurrent.futures import ThreadPoolExecutor

VERIF = os.path.dirname(os.path.dirname(os.path.abspath(__file__)))
REPO = os.environ.get('VERIF_REPO', '/repo')
BUILD = os.path.join(VERIF, 'build')
sys.path.insert(0, os.path.join(VERIF, 'tools'))
import slice as S

CBMC_FLAGS = ['--bounds-check', '--pointer-check', '--div-by-zero-check', '--signed-overflow-check',
              '--undefined-shift-check', '--pointer-primitive-check']
MEM_KB = int(os.environ.get('VERIF_MEM_KB', str(14 * 1024 * 1024)))

class Undecided(Exception):
    pass

class Query:
    def __init__(self, name, kind, unit, entry, enforce=None, cfile=None, defines=(), unwind=None, timeout=600,
                 replace=(), loop_contracts=False, backend=None, replay=None, bounded=None, functions=(),
                 object_bits=None, tier='quick', extra_cbmc=(), note='', unwind_assert=True):
        self.name = name; self.kind = kind; self.unit = unit; self.entry = entry; self.enforce = enforce
        self.cfile = cfile; self.defines = list(defines); self.unwind = unwind; self.timeout = timeout
        self.replace = list(replace); self.loop_contracts = loop_contracts; self.backend = backend
        self.replay = replay; self.bounded = bounded; self.functions = list(functions)
        self.object_bits = object_bits; self.tier = tier; self.extra_cbmc = list(extra_cbmc); self.note = note; self.unwind_assert = unwind_assert
        self.input_stop = 'spec_step' if kind == 'harness' else None
   # harness inputs are complete when the spec is first called

import threading, contextlib
_RETRY_LOCK = threading.Lock(); _NOLOCK = contextlib.nullcontext()
# multisig queries with signatures need 4-9 GB each for cbmc plus the external solver: at most 3 of them run at a time
_HEAVY = threading.Semaphore(3)
def _is_heavy(q):
    return any(d.startswith('H_MS_SIGS=') and d != 'H_MS_SIGS=0' for d in q.defines)

def _limits():
    import resource
    resource.setrlimit(resource.RLIMIT_AS, (MEM_KB * 1024, MEM_KB * 1024))
    os.setsid()

def sh(cmd, cwd, timeout, out=None, limit=True):
    t0 = time.time()
    try:
        p = subprocess.Popen(cmd, cwd=cwd, stdout=subprocess.PIPE if out is None else open(out, 'w'),
                             stderr=subprocess.PIPE, preexec_fn=_limits if limit else os.setsid, text=True)
        try:
            so, se = p.communicate(timeout=timeout)
        except subprocess.TimeoutExpired:
            try: os.killpg(p.pid, signal.SIGKILL)
            except Exception: pass
            p.communicate()
            return -9, '', 'TIMEOUT', time.time() - t0
        return p.returncode, so or '', se or '', time.time() - t0
    except OSError as e:
        return -1, '', str(e), time.time() - t0

_unit_cache = {}
def unit_text(builder):
    """builder: callable -> (text, provenance list); memoised per process"""
    if builder not in _unit_cache:
        S.PROVENANCE.clear()
        text = builder()
        text, _n_constorder = S.r_constorder(text)                     # front-end defect guard (static initialisation order)
        S.lint_ternaries(text, getattr(builder, '__name__', 'unit'))   # front-end defect guard (DESIGN.md section 9)
        _unit_cache[builder] = (text, list(S.PROVENANCE))
    return _unit_cache[builder]

def run_query(q, pid, tier):
    """returns dict(name, status in ok|fail|undecided, obligations=[...], reason, secs, cmd)"""
    wd = os.path.join(BUILD, pid, q.name)
    shutil.rmtree(wd, ignore_errors=True)
    os.makedirs(wd)
    res = {'name': q.name, 'status': 'undecided', 'obligations': [], 'reason': '', 'secs': 0.0, 'solver_secs': 0.0,
           'backend': ('sat-kissat(external)' if q.backend == 'kissat' else (q.backend or 'sat-minisat')), 'bounded': q.bounded, 'functions': q.functions, 'provenance': [], 'wd': wd}
    t0 = time.time()
    try:
        gb = None
        inc = ['-I', os.path.join(VERIF, 'stubs'), '-I', os.path.join(VERIF, 'contracts'), '-I', os.path.join(VERIF, 'harness')]
        defs = ['-D' + d for d in q.defines]
        if q.kind in ('dfcc', 'harness'):
            text, prov = unit_text(q.unit)
            res['provenance'] = prov
            open(os.path.join(wd, 'unit.cpp'), 'w').write(text)
            cmd = ['goto-cc', '-std=c++11', '-nostdinc'] + inc + defs + ['unit.cpp', '-o', 'unit.gb']
            if q.kind == 'harness':
                cmd += ['--function', q.entry]
            rc, so, se, _ = sh(cmd, wd, 300)
            if rc != 0:
                raise Undecided(f"goto-cc (C++ front end) failed on sliced unit: {(se or so)[-600:]}")
            gb = 'unit.gb'
        if q.kind in ('dfcc', 'c'):
            cf = os.path.join(VERIF, q.cfile)
            rc, so, se, _ = sh(['goto-cc', '-I', os.path.join(VERIF, 'contracts')] + defs + [cf, '-o', 'c.gb'], wd, 300)
            if rc != 0:
                raise Undecided(f"goto-cc failed on contract file {q.cfile}: {(se or so)[-600:]}")
            parts = ['c.gb'] if q.kind == 'c' else ['unit.gb', 'c.gb']
            rc, so, se, _ = sh(['goto-cc'] + parts + ['--function', q.entry, '-o', 'linked.gb'], wd, 300)
            if rc != 0:
                raise Undecided(f"goto-cc link failed: {(se or so)[-600:]}")
            gb = 'linked.gb'
            if q.enforce:
                cmd = ['goto-instrument', '--dfcc', q.entry, '--enforce-contract', q.enforce]
                for r in q.replace:
                    cmd += ['--replace-call-with-contract', r]
                if q.loop_contracts:
                    cmd += ['--apply-loop-contracts']
                cmd += ['linked.gb', 'inst.gb']
                rc, so, se, _ = sh(cmd, wd, 300)
                if rc != 0:
                    raise Undecided(f"goto-instrument --dfcc failed: {(se or so)[-600:]}")
                gb = 'inst.gb'
        cmd = ['cbmc', gb] + CBMC_FLAGS + ['--json-ui', '--trace', '--drop-unused-functions']
        if q.unwind:
            cmd += ['--unwind', str(q.unwind)] + (['--unwinding-assertions'] if q.unwind_assert else ['--no-unwinding-assertions'])
        if q.object_bits:
            cmd += ['--object-bits', str(q.object_bits)]
        if q.backend == 'kissat':
            cmd += ['--external-sat-solver', 'kissat']
        elif q.backend:
            cmd += ['--' + q.backend]
        cmd += q.extra_cbmc
        res['cmd'] = ' '.join(cmd)
        for attempt in range(3):
            # a failed start of the external solver (fork of a multi-GB cbmc process under memory pressure) shows up as
            # "unexpected response": retried, one query at a time
            with (_RETRY_LOCK if attempt else _NOLOCK), (_HEAVY if _is_heavy(q) else _NOLOCK):
                rc, so, se, secs = sh(cmd, wd, q.timeout, out=os.path.join(wd, 'cbmc.json'))
            res['solver_secs'] = secs
            if se == 'TIMEOUT':
                raise Undecided(f"cbmc timeout after {q.timeout}s")
            try:
                data = json.load(open(os.path.join(wd, 'cbmc.json')))
            except Exception as e:
                raise Undecided(f"cbmc output unreadable (rc={rc}): {e}; stderr: {se[-300:]}")
            msgs = [e.get('messageText', '') for e in data if isinstance(e, dict) and 'messageText' in e]
            if not any('external SAT solver has provided an unexpected response' in m for m in msgs): break
            res['solver_retries'] = attempt + 1
        for m in msgs:
            if 'ignoring forall' in m or 'Parse Error' in m or 'out of memory' in m.lower():
                raise Undecided(f"cbmc message: {m[:200]}")
        results = None
        for e in data:
            if isinstance(e, dict) and 'result' in e:
                results = e['result']
        if results is None:
            errs = [m for m in msgs if m][-4:]
            raise Undecided(f"cbmc produced no result block (rc={rc}): {errs}")
        obs = []
        for r in results:
            sl = r.get('sourceLocation', {})
            ob = {'id': r.get('property', ''), 'desc': r.get('description', ''), 'status': r.get('status', ''),
                  'function': sl.get('function', ''), 'file': os.path.basename(sl.get('file', '') or ''), 'line': sl.get('line', '')}
            if ob['status'] != 'SUCCESS' and 'trace' in r:
                ob['inputs'] = extract_inputs(r['trace'], q.entry, q.input_stop)
                ob['trace_tail'] = trace_tail(r['trace'])
            obs.append(ob)
        res['obligations'] = obs
        res['status'] = 'done'
    except Undecided as u:
        res['reason'] = str(u)
    except S.SliceError as u:
        res['reason'] = 'slice: ' + str(u)
    res['secs'] = time.time() - t0
    return res

def _val(v):
    if not isinstance(v, dict): return None
    n = v.get('name')
    if n in ('integer', 'boolean', 'float', 'pointer', 'string'):
        d = v.get('data')
        if n == 'integer' and isinstance(d, str):
            d2 = re.sub(r'[uUlL]+$', '', d)
            try: return int(d2)
            except ValueError:
                try: return int(d2, 0)
                except ValueError: return d
        if n == 'boolean': return bool(d) if not isinstance(d, str) else d == 'true'
        return d
    if n == 'array':
        return [_val(e.get('value')) for e in v.get('elements', [])]
    if n == 'struct':
        return {m.get('name'): _val(m.get('value')) for m in v.get('members', [])}
    return None

def _parse_lhs(lhs):
    """'st.w[0l].s.a[3l]' -> ['st','w',0,'s','a',3]; returns None for exotic forms"""
    toks = []
    i = 0
    m = re.match(r'^[A-Za-z_][\w:]*', lhs)
    if not m: return None
    toks.append(m.group(0)); i = m.end()
    while i < len(lhs):
        if lhs[i] == '.':
            m = re.match(r'\.([A-Za-z_][\w:]*)', lhs[i:])
            if not m: return None
            toks.append(m.group(1).split('::')[-1]); i += m.end()
        elif lhs[i] == '[':
            m = re.match(r'\[(\d+)[lLuU]*\]', lhs[i:])
            if not m: return None
            toks.append(int(m.group(1))); i += m.end()
        else:
            return None
    return toks

def _strip_names(v):
    if isinstance(v, dict): return {k.split('::')[-1]: _strip_names(x) for k, x in v.items()}
    if isinstance(v, list): return [_strip_names(x) for x in v]
    return v

def _store(tree, toks, v):
    cur = tree
    for j, t in enumerate(toks[:-1]):
        nxt = toks[j + 1]
        if isinstance(cur, dict):
            if t not in cur or not isinstance(cur[t], (dict, list)): cur[t] = [] if isinstance(nxt, int) else {}
            cur = cur[t]
        elif isinstance(cur, list) and isinstance(t, int):
            while len(cur) <= t: cur.append(None)
            if not isinstance(cur[t], (dict, list)): cur[t] = [] if isinstance(nxt, int) else {}
            cur = cur[t]
        else:
            return
    t = toks[-1]
    if isinstance(cur, dict): cur[t] = v
    elif isinstance(cur, list) and isinstance(t, int):
        while len(cur) <= t: cur.append(None)
        cur[t] = v

def extract_inputs(trace, entry, target=None):
    """harness inputs = the memory of the entry harness's locals and of the ghost globals (g_*, vin_*, verif_*) as it
    stands when control first enters the function under test (target; default: first function called that is not a
    stub/spec helper is unknown, so: the LAST state before the failure if no target is given)."""
    tree = {}
    for s in trace:
        fn = s.get('sourceLocation', {}).get('function')
        if target and s.get('stepType') == 'function-call' and target in ((s.get('function', {}).get('displayName', '') or '') + (s.get('function', {}).get('identifier', '') or '')):
            break
        if s.get('stepType') != 'assignment': continue
        lhs = s.get('lhs', '')
        if lhs.startswith('__') or '$' in lhs or '#' in lhs: continue
        toks = _parse_lhs(lhs)
        if not toks: continue
        b = toks[0]
        if not (fn == entry or b.startswith(('g_', 'vin_', 'verif_expect'))): continue
        v = _val(s.get('value'))
        if v is None: continue
        _store(tree, toks, _strip_names(v))
    return tree

def trace_tail(trace, n=25):
    lines = []
    for s in trace:
        if s.get('stepType') == 'assignment' and not s.get('hidden'):
            v = s.get('value', {})
            if v.get('name') in ('integer', 'boolean'):
                sl = s.get('sourceLocation', {})
                lines.append(f"{sl.get('function','')}:{sl.get('line','')} {s.get('lhs')} = {v.get('data')}")
        elif s.get('stepType') == 'failure':
            lines.append(f"FAILURE {s.get('property')} : {s.get('reason')}")
    return lines[-n:]

# ------------------------------------------------------------------------------------------------------------
def load_known():
    p = os.path.join(VERIF, 'known_findings.json')
    if not os.path.exists(p): return []
    return json.load(open(p)).get('findings', [])

NAMED_PREFIXES = ('spec:', 'canary:', 'contract:', 'frame:', 'step:', 'lemma:', 'ensures:', 'inv:')
def obligation_key(qname, ob):
    """identity of an obligation written in /verif (contract clause, harness/lemma assertion): stable across edits of
    /repo because it never contains a line number or CBMC's running number of a code-derived check.
    Code-derived safety obligations (bounds, pointer, overflow, stub preconditions, assert() in sliced code, throw
    sites) return None: they must all pass, but their number may change with harmless edits."""
    if '.postcondition.' in ob['id'] or '.precondition.' in ob['id']:
        return f"{qname}|{ob['id']}"
    if ob['desc'].startswith(NAMED_PREFIXES):
        return f"{qname}|{ob['desc']}"
    return None

_replay_built = {}
MAX_REPLAYS = 6     # native replays per check run; further failed obligations are reported without replay
_replays_done = [0]
def native_replay(q, ob, pid, outdir):
    """compile and run the native replay driver against the REAL code in /repo with the verifier's counterexample.
    returns (status, text): status in reproduced | not-reproduced | no-input | error"""
    if not q.replay or not ob.get('inputs'):
        return 'no-input', ''
    if _replays_done[0] >= MAX_REPLAYS:
        return 'no-input', f'replay skipped: {MAX_REPLAYS} counterexamples of this run were already replayed'
    _replays_done[0] += 1
    rp = q.replay
    try:
        argv = rp['args'](ob['inputs'], q)
    except Exception as e:
        return 'no-input', f'could not map counterexample to replay arguments: {e!r}'
    if argv is None:
        return 'no-input', 'counterexample does not determine the replay inputs'
    if rp.get('premake'):
        import fcntl
        with open(os.path.join(BUILD, '.make.lock'), 'w') as lk:
            fcntl.flock(lk, fcntl.LOCK_EX)
            rc, so, se, _ = sh(['make', '-C', REPO, '-j8'] + rp['premake'], outdir, 1200)
        if rc != 0:
            return 'error', 'could not rebuild the libraries of /repo for the replay: ' + (se or so)[-600:]
    src = os.path.join(VERIF, rp['driver'])
    key = (rp['driver'], tuple(rp.get('defines', [])))
    if key in _replay_built:          # one build of a driver per check run (the tree does not change during a run)
        exe = _replay_built[key]
        rc, so, se, _ = sh([exe] + [str(a) for a in argv], outdir, 120, limit=False)
        text = f"$ {os.path.basename(exe)} {' '.join(str(a) for a in argv)}\n{so}{se}"[-3000:]
        if 'failed to allocate' in se or 'ReserveShadowMemoryRange' in se: return 'error', text
        if rc == 0: return 'not-reproduced', text
        if rc == 1 or rc < 0 or rc >= 128 or 'runtime error' in se or 'ERROR: AddressSanitizer' in se: return 'reproduced', text
        return 'error', text
    exe = os.path.join(outdir, 'replay_' + os.path.basename(rp['driver']).replace('.cpp', ''))
    cmd = ['g++', '-std=c++17', '-O1', '-g', '-fsanitize=address,undefined', '-fno-sanitize-recover=undefined',
           '-I', REPO, '-I', os.path.join(REPO, 'secp256k1/include'), '-I', os.path.join(VERIF, 'contracts'), '-I', os.path.join(VERIF, 'replay'),
           '-DHAVE_CONFIG_H', '-I', os.path.join(REPO, 'config')] + ['-D' + d for d in rp.get('defines', [])] + [src] + \
          [os.path.join(REPO, s) for s in rp.get('sources', [])] + [l.replace('{REPO}', REPO) for l in rp.get('libs', [])] + ['-o', exe]
    rc, so, se, _ = sh(cmd, outdir, 600)
    if rc != 0:
        return 'error', 'replay driver failed to build: ' + (se or so)[-800:]
    _replay_built[key] = exe
    rc, so, se, _ = sh([exe] + [str(a) for a in argv], outdir, 120, limit=False)   # (AddressSanitizer needs an unlimited address space)
    text = f"$ {os.path.basename(exe)} {' '.join(str(a) for a in argv)}\n{so}{se}"[-3000:]
    if rc == 0: return 'not-reproduced', text
    if 'failed to allocate' in se or 'ReserveShadowMemoryRange' in se: return 'error', text
    if rc == 1 or rc < 0 or rc >= 128 or 'runtime error' in se or 'ERROR: AddressSanitizer' in se: return 'reproduced', text
    return 'error', text

def run_check(pid, queries, tier, meta):
    """meta: dict(level, technique, trusted_base, assumptions, explanation)"""
    t0 = time.time()
    # the model of libstdc++ the proofs rest on is validated on every run (differential test against the real std::vector)
    rc_st, so_st, se_st, _ = sh(['sh', os.path.join(VERIF, 'tools', 'stub_selftest.sh')], VERIF, 300, limit=False)
    selftest_line = (so_st.strip().split('\n') or [''])[-1]
    if rc_st != 0:
        print('UNDECIDED: stub self-test failed: ' + (so_st + se_st)[-400:]); return 2
    seed = int(os.environ.get('VERIF_SEED', '0') or 0)
    qs = [q for q in queries if tier == 'thorough' or q.tier == 'quick']
    if os.environ.get('VERIF_ONLY'):
        qs = [q for q in qs if re.search(os.environ['VERIF_ONLY'], q.name)]
    if seed:
        import random
        random.Random(seed).shuffle(qs)
    # longest first
    qs.sort(key=lambda q: -q.timeout) if not seed else None
    jobs = int(os.environ.get('VERIF_JOBS', '16'))
    with ThreadPoolExecutor(max_workers=jobs) as ex:
        results = list(ex.map(lambda q: run_query(q, pid, tier), qs))
    bl_path = os.path.join(VERIF, 'baselines', pid + '.json')
    rebaseline = os.environ.get('VERIF_REBASELINE') == '1'
    baseline = json.load(open(bl_path)) if os.path.exists(bl_path) else {'named': {}}
    known = [k for k in load_known() if k.get('property') == pid and k.get('status', 'open') == 'open']
    undecided, violations, known_hits = [], [], []
    named_seen = {}
    total = discharged = canaries = 0
    samples = []
    qmap = {q.name: q for q in qs}
    outdir = os.path.join(BUILD, pid, '_replay'); os.makedirs(outdir, exist_ok=True)
    for r in results:
        q = qmap[r['name']]
        if r['status'] != 'done':
            undecided.append(f"{r['name']}: {r['reason']}")
            continue
        ncan = 0
        for ob in r['obligations']:
            key = obligation_key(r['name'], ob)
            d = ob['desc']
            if d.startswith('canary:'):
                ncan += 1; canaries += 1
                named_seen[key] = 'canary'
                if ob['status'] != 'FAILURE':
                    undecided.append(f"{r['name']}: vacuity guard '{d}' is not reachable (status {ob['status']})")
                continue
            total += 1
            if key: named_seen[key] = 'named'
            if ob['status'] == 'SUCCESS':
                discharged += 1
                continue
            if d.startswith('verif-limit:') or 'unwinding assertion' in d:
                undecided.append(f"{r['name']}: model/unwinding limit reached: {d} [{ob['function']}]")
                continue
            if ob['status'] != 'FAILURE':
                undecided.append(f"{r['name']}: obligation {ob['id']} status {ob['status']}")
                continue
            violations.append((r, q, ob))
        if ncan == 0 and q.kind != 'c':
            undecided.append(f"{r['name']}: no canary obligation in query (vacuity guard missing)")
        if len(samples) < 6:
            named = [o for o in r['obligations'] if obligation_key(r['name'], o)]
            if named:
                o = named[len(named) // 2]
                samples.append({'query': r['name'], 'obligation': o['id'], 'description': o['desc'], 'status': o['status']})
    # vacuity / drift guard: every named obligation of the baseline must have been generated again
    if rebaseline and not undecided:
        os.makedirs(os.path.dirname(bl_path), exist_ok=True)
        old = baseline.get('named', {})
        cur = {k: v for k, v in named_seen.items()}
        ran_now = {r['name'] for r in results}
        for k, v in old.items():          # keep the entries of queries that were not part of this invocation (other tier, VERIF_ONLY)
            if k.split('|')[0] not in ran_now: cur.setdefault(k, v)
        json.dump({'named': dict(sorted(cur.items()))}, open(bl_path, 'w'), indent=0)
        baseline = {'named': cur}
    ran = {r['name'] for r in results if r['status'] == 'done'}
    for k in baseline.get('named', {}):
        qn = k.split('|')[0]
        if qn in ran and k not in named_seen:
            undecided.append(f"baseline obligation not generated any more: {k}")
    if not baseline.get('named'):
        undecided.append("no obligation baseline committed for this property")
    # triage failures
    out_lines = []
    exit_code = 0
    n_viol = 0
    for r, q, ob in violations:
        kf = None
        for k in known:
            if k.get('query') == r['name'] and (k.get('obligation') in (ob['id'], ob['desc']) or k.get('obligation_re') and re.search(k['obligation_re'], ob['desc'])):
                kf = k
        if kf is not None:
            known_hits.append((kf, r, ob))
            continue
        status, text = native_replay(q, ob, pid, outdir)
        rp = os.path.join(VERIF, 'build', 'replays'); os.makedirs(rp, exist_ok=True)
        path = os.path.join(rp, f"{pid}_{r['name']}_{re.sub(r'[^A-Za-z0-9]+', '_', ob['id'])[:60]}.json")
        json.dump({'property': pid, 'query': r['name'], 'obligation': ob['id'], 'description': ob['desc'], 'function': ob['function'],
                   'verifier_cmd': r.get('cmd'), 'workdir': r['wd'], 'counterexample_inputs': ob.get('inputs'), 'trace_tail': ob.get('trace_tail'),
                   'native_replay': status, 'native_output': text,
                   'rerun': f"cd {VERIF} && ./check {pid} {tier}"}, open(path, 'w'), indent=1)
        if status == 'not-reproduced':
            undecided.append(f"{r['name']}: obligation '{ob['desc']}' fails in the verifier but the counterexample does NOT reproduce on the natively compiled real code (model or harness suspect) -> {path}")
            continue
        n_viol += 1
        tail = '' if status == 'reproduced' else ' no-failing-input-found'
        out_lines.append(f"VIOLATION property={pid} replay={path} obligation=\"{ob['desc'][:100]}\" query={r['name']}{tail}")
    for kf, r, ob in known_hits:
        out_lines.append(f"KNOWN-FINDING: property={pid} {kf.get('what','')} [query={r['name']} obligation={ob['id']}]")
    for k in known:   # a listed finding that no longer fails is reported (it does not fail the check)
        if not any(k is kk for kk, _, _ in known_hits) and k.get('query') in ran:
            out_lines.append(f"note: known finding no longer observed: property={pid} {k.get('what','')}")
    if n_viol: exit_code = 1
    elif undecided: exit_code = 2
    wall = time.time() - t0
    bounded = sorted({f"{r['name']}: {r['bounded']}" for r in results if r.get('bounded')})
    funcs = sorted({f for r in results for f in r['functions']})
    prov = sorted({f"{p[0]}:{p[1]}-{p[2]} sha256/16={p[3]}" for r in results for p in r['provenance']})
    backends = {}
    for r in results:
        backends[r['backend']] = backends.get(r['backend'], 0) + sum(1 for o in r['obligations'] if o['status'] == 'SUCCESS' and not o['desc'].startswith('canary:'))
    ev = {
        'property_id': pid, 'tier': tier, 'seed': seed, 'level': meta['level'],
        'coverage': {
            'obligations': total, 'discharged': discharged,
            'checker_cmd': 'goto-cc -std=c++11 -nostdinc -I stubs <sliced unit> ; goto-instrument --dfcc <h> --enforce-contract <w> ; cbmc ' + ' '.join(CBMC_FLAGS) + ' --unwind N --unwinding-assertions (per query; see queries[].cmd)',
            'trusted_base': meta['trusted_base'],
            'explanation': meta.get('explanation', ''),
            'queries': len(results), 'queries_done': sum(1 for r in results if r['status'] == 'done'),
            'vacuity_canaries_failed_as_required': canaries,
            'stub_model_selftest': selftest_line,
            'discharged_by_backend': backends,
            'solver_seconds_total': round(sum(r['solver_secs'] for r in results), 1),
            'functions_under_contract': funcs,
            'sliced_regions': prov,
            'bounded_stand_ins': bounded,
            'undecided': undecided[:50],
            'known_findings_reported': [k.get('what') for k, _, _ in known_hits],
            'samples': samples,
            'per_query': [{'name': r['name'], 'status': r['status'], 'obligations': len(r['obligations']), 'solver_s': round(r['solver_secs'], 1), 'backend': r['backend'], 'bounded': r['bounded'], 'cmd': r.get('cmd', '')} for r in results],
        },
        'assumptions': meta['assumptions'],
        'wall_s': round(wall, 1),
        'violations': n_viol,
    }
    # evidence/<id>.json describes a full run of the registered command against /repo; runs restricted with VERIF_ONLY or
    # pointed at a scratch tree (seed testing) write elsewhere so that they never replace it
    evdir = os.environ.get('VERIF_EVIDENCE_DIR') or (os.path.join(VERIF, 'build', 'evidence_partial') if (os.environ.get('VERIF_ONLY') or os.environ.get('VERIF_REPO')) else os.path.join(VERIF, 'evidence'))
    os.makedirs(evdir, exist_ok=True)
    json.dump(ev, open(os.path.join(evdir, pid + '.json'), 'w'), indent=1)
    for l in out_lines: print(l)
    if undecided:
        print(f"UNDECIDED ({len(undecided)}):")
        for u in undecided[:20]: print("  " + u)
    print(f"{pid} [{tier}]: {len(results)} queries, {total} obligations, {discharged} discharged, {canaries} canaries, {n_viol} violations, {len(known_hits)} known findings, {len(undecided)} undecided, {wall:.0f}s -> exit {exit_code}")
    return exit_code
