#!/bin/bash
# seedtest_wt.sh <check-property> <patch file> : like seedtest.sh, but applies the change to the scratch worktree /tmp/wt_test
# (a checkout of /repo's HEAD) and points the check at it with VERIF_REPO, so that /repo itself is never modified.
P=$1; PATCH=$2; WT=${WT:-/tmp/wt_test}
cd $WT && git checkout -q -- . && (git apply "$PATCH" 2>/dev/null || patch -p1 -s --no-backup-if-mismatch -F3 < "$PATCH") || { echo "patch does not apply"; git checkout -q -- .; exit 2; }
cd /verif && VERIF_REPO=$WT ./check $P ${TIER:-quick} > /tmp/seedtest_$$.log 2>&1; rc=$?
cd $WT && git checkout -q -- .
grep -E "^VIOLATION|^KNOWN|^UNDECIDED|^  [a-z]|exit [0-9]" /tmp/seedtest_$$.log | cut -c1-260 | head -${LINES_MAX:-8}
echo "seedtest $P vs $PATCH: rc=$rc"
rm -f /tmp/seedtest_$$.log
