// Differential self-test of the stub containers (stubs/verif_std.h) against libstdc++: the same operation sequences are
// applied to verif_bytes / verif_stack (window model with no hidden items) and to std::vector; any divergence means the
// model the proofs rest on is wrong -> the checks exit 2.  Deterministic pseudo-random sequences + boundary cases.
#include <vector>
#include <cstdio>
#include <cstdlib>
#include <stdexcept>
static int g_fail = 0;
#include <cstring>
#define __CPROVER_assert(c, m) do { if (!(c)) { if (strncmp((m), "verif-limit", 11) == 0) throw ::std::length_error(m); throw ::std::logic_error(m); } } while (0)
#define __CPROVER_assume(c) do { if (!(c)) { throw ::std::length_error("assume"); } } while (0)
#define __CPROVER_same_object(a, b) (true)
#define VERIF_NATIVE_SELFTEST
#define VERIF_ITEM_CAP 12
#define VERIF_STACK_W 6
#define VERIF_SCRIPT_CAP 12
namespace stub {
#include "../stubs/verif_std_native.h"
}
typedef std::vector<unsigned char> B; typedef std::vector<B> S;
static unsigned rnd_state = 12345; static unsigned rnd() { rnd_state = rnd_state * 1103515245u + 12345u; return (rnd_state >> 16) & 0x7fff; }
static bool eqB(const stub::verif_bytes& a, const B& b) { if (a.n != b.size()) return false; for (size_t i = 0; i < b.size(); ++i) if (a.s.a[i] != b[i]) return false; return true; }
static bool eqS(const stub::verif_stack& a, const S& b) { if (a.base + a.n != b.size()) return false; for (size_t i = 0; i < b.size(); ++i) if (!eqB(a.w[i], b[i])) return false; return true; }
int main() {
    long ops = 0;
    for (int round = 0; round < 40000; ++round) {
        stub::verif_stack ms; S rs; stub::verif_bytes mb; B rb;
        for (int step = 0; step < 24; ++step) {
            unsigned k = rnd() % 12; unsigned char v = (unsigned char)(rnd() & 0xff); size_t d = rnd() % 4;
            bool me = false, re = false;
            try {
                switch (k) {
                case 0: mb.push_back(v); break;
                case 1: mb.pop_back(); break;
                case 2: { stub::verif_bytes t = mb; ms.push_back(t); } break;
                case 3: ms.pop_back(); break;
                case 4: ms.erase(ms.end() - (long)(d + 1)); break;
                case 5: { stub::verif_bytes t = mb; ms.insert(ms.end() - (long)d, t); } break;
                case 6: ms.erase(ms.end() - (long)(d + 2), ms.end() - (long)d); break;
                case 7: stub::swap(ms.at(ms.size() - 1 - d), ms.at(ms.size() - 1)); break;
                case 8: mb.resize(d * 3); break;
                case 9: if (mb.size() > d) mb.erase(mb.begin(), mb.begin() + d); break;
                case 10: { stub::verif_bytes t = ms.back(); mb.insert(mb.end(), t.begin(), t.end()); } break;
                case 11: mb = ms.at(ms.size() - 1 - d); break;
                }
            } catch (const ::std::length_error&) { goto next_round; /* capacity of the model reached: not a divergence */ }
              catch (const ::std::logic_error& e) { me = true; if (getenv("ST_DEBUG")) printf("stub exception: %s\n", e.what()); } catch (...) { me = true; }
            try {
                switch (k) {
                case 0: rb.push_back(v); break;
                case 1: if (rb.empty()) throw 1; rb.pop_back(); break;
                case 2: rs.push_back(rb); break;
                case 3: if (rs.empty()) throw 1; rs.pop_back(); break;
                case 4: if (rs.size() < d + 1) throw 1; rs.erase(rs.end() - (d + 1)); break;
                case 5: if (rs.size() < d) throw 1; rs.insert(rs.end() - d, rb); break;
                case 6: if (rs.size() < d + 2) throw 1; rs.erase(rs.end() - (d + 2), rs.end() - d); break;
                case 7: std::swap(rs.at(rs.size() - 1 - d), rs.at(rs.size() - 1)); break;
                case 8: rb.resize(d * 3); break;
                case 9: if (rb.size() > d) rb.erase(rb.begin(), rb.begin() + d); break;
                case 10: { if (rs.empty()) throw 1; B t = rs.back(); rb.insert(rb.end(), t.begin(), t.end()); } break;
                case 11: rb = rs.at(rs.size() - 1 - d); break;
                }
            } catch (...) { re = true; }
            ++ops;
            if (me != re) { printf("DIVERGENCE: op %u d=%zu: stub %s, std::vector %s\n", k, d, me ? "rejects" : "accepts", re ? "rejects" : "accepts"); return 1; }
            if (me) goto next_round;
            if (!eqB(mb, rb) || !eqS(ms, rs)) { printf("DIVERGENCE after op %u (round %d step %d)\n", k, round, step); return 1; }
        }
        next_round: ;
    }
    printf("stub self-test: %ld operations, no divergence\n", ops);
    return 0;
}
