#!/usr/bin/env python3
"""Slicer: extracts functions / classes / enum blocks VERBATIM from /repo by anchor regex + comment/string-aware
brace matching and applies the fixed, must-fire rewrite rules of DESIGN.md section 3.1.

Every failure here raises SliceError -> the check exits 2 (extraction/tool limit), never a VIOLATION."""
import re, hashlib, os

REPO = os.environ.get('VERIF_REPO', '/repo')

class SliceError(Exception):
    pass

PROVENANCE = []   # (path, first_line, last_line, sha256) of every sliced region, reported in evidence

def _read(path):
    p = path if os.path.isabs(path) else os.path.join(REPO, path)
    try:
        return open(p).read()
    except OSError as e:
        raise SliceError(f"cannot read {p}: {e}")

def _scan(src, i):
    """index just after the '}' matching the '{' at src[i]; aware of strings, chars, // and /* */ comments"""
    assert src[i] == '{'
    depth = 0
    n = len(src)
    while i < n:
        c = src[i]
        if c == '/' and i + 1 < n and src[i+1] == '/':
            j = src.find('\n', i)
            i = n if j < 0 else j
            continue
        if c == '/' and i + 1 < n and src[i+1] == '*':
            j = src.find('*/', i)
            if j < 0: break
            i = j + 2
            continue
        if c == '"':
            i += 1
            while i < n and src[i] != '"':
                if src[i] == '\\': i += 1
                i += 1
            i += 1
            continue
        if c == "'":
            i += 1
            while i < n and src[i] != "'":
                if src[i] == '\\': i += 1
                i += 1
            i += 1
            continue
        if c == '{':
            depth += 1
        elif c == '}':
            depth -= 1
            if depth == 0:
                return i + 1
        i += 1
    raise SliceError("unbalanced braces while slicing")

def _note(path, src, start, end):
    a = src.count('\n', 0, start) + 1
    b = src.count('\n', 0, end) + 1
    PROVENANCE.append((path, a, b, hashlib.sha256(src[start:end].encode()).hexdigest()[:16]))
    return a, b

def block(path, anchor, trailing=';', open_at_bol=False, which=0, count=1):
    """text from the line matching `anchor` through the matching close brace (+ optional trailing text)"""
    src = _read(path)
    ms = list(re.finditer(anchor, src, re.M))
    if len(ms) != count:
        raise SliceError(f"anchor {anchor!r} in {path}: expected {count} match(es), got {len(ms)}")
    m = ms[which]
    start = src.rfind('\n', 0, m.start()) + 1
    try:
        b = src.index('\n{', m.start()) + 1 if open_at_bol else src.index('{', m.start())
    except ValueError:
        raise SliceError(f"no opening brace after anchor {anchor!r} in {path}")
    end = _scan(src, b)
    if trailing and src[end:end+len(trailing)] == trailing:
        end += len(trailing)
    a, bb = _note(path, src, start, end)
    return f"// ---- sliced verbatim from {path}:{a}-{bb}\n" + src[start:end] + "\n"

_DEF_RE = re.compile(r'^(?:static\s+|inline\s+)*(?:[A-Za-z_][\w:<>]*[\s\*&]+)+([A-Za-z_]\w*)\s*\(([^;{}()]|\([^()]*\))*\)\s*\{', re.M)
def local_helpers(path, text, exclude=()):
    """R-HELPERS: free functions DEFINED at file scope in `path` that the sliced text CALLS but does not contain are pulled in
    verbatim (transitively), so that moving statements of a sliced function into a new local helper keeps the unit complete.
    `exclude`: names deliberately provided elsewhere (contract stubs, oracles, functions sliced separately)."""
    src = _read(path)
    defs = {}
    for m in _DEF_RE.finditer(src):
        name = m.group(1)
        if name in ('if', 'for', 'while', 'switch', 'return') or '::' in src[m.start():m.end()].split('(')[0]: continue
        defs.setdefault(name, []).append(m)
    out = ''; have = text
    changed = True
    while changed:
        changed = False
        for name, ms in defs.items():
            if name in exclude or len(ms) != 1: continue
            if not re.search(r'\b' + name + r'\s*\(', have): continue
            m = ms[0]
            # already in the unit (same signature line present)?
            sig = src[m.start():src.index('(', m.start())].strip()
            if re.search(r'^\s*' + re.escape(sig) + r'\s*\(', have, re.M): continue
            b = src.index('{', m.start()); end = _scan(src, b)
            a, bb = _note(path, src, m.start(), end)
            piece = f"// ---- sliced verbatim from {path}:{a}-{bb} (R-HELPERS: local helper called by sliced code)\n" + src[m.start():end] + "\n"
            out += piece; have += piece; changed = True
    return out

def body_of(path, anchor, **kw):
    """like block() but returns (header_text, body_text_with_braces)"""
    t = block(path, anchor, trailing=None, **kw)
    i = t.index('{', t.index('\n') + 1)
    return t[:i], t[i:]

def between(path, start_anchor, end_anchor, include_end=False):
    """lines from the one matching start_anchor up to (not including, unless include_end) the first later line matching end_anchor"""
    src = _read(path)
    ms = list(re.finditer(start_anchor, src, re.M))
    if len(ms) != 1:
        raise SliceError(f"anchor {start_anchor!r} in {path}: expected 1 match, got {len(ms)}")
    start = src.rfind('\n', 0, ms[0].start()) + 1
    me = re.compile(end_anchor, re.M).search(src, ms[0].end())
    if not me:
        raise SliceError(f"end anchor {end_anchor!r} not found after {start_anchor!r} in {path}")
    end = src.rfind('\n', 0, me.start()) + 1
    if include_end:
        j = src.find('\n', me.end())
        end = len(src) if j < 0 else j + 1
    a, b = _note(path, src, start, end)
    return f"// ---- sliced verbatim from {path}:{a}-{b}\n" + src[start:end] + "\n"

def rewrite(text, rules):
    """rules: (pattern, replacement, expected_count or None for 'any number >= 0' or '+' for 'at least one')"""
    for pat, rep, expect in rules:
        text, k = re.subn(pat, rep, text, flags=re.M)
        if expect == '+':
            if k < 1: raise SliceError(f"rewrite rule {pat!r} did not fire (expected at least once)")
        elif expect is not None and k != expect:
            raise SliceError(f"rewrite rule {pat!r} fired {k} times, expected {expect}")
    return text

# ---- the fixed rule sets (DESIGN.md 3.1) -------------------------------------------------------------------
R_TYPES = [
    (r'std::vector<std::vector<unsigned char> ?>', 'verif_stack', None),
    (r'std::vector<std::vector<uint8_t> ?>', 'verif_stack', None),
    (r'std::vector<valtype>', 'verif_stack', None),
    (r'std::vector<(unsigned char|uint8_t)>', 'verif_bytes', None),
    (r'std::map<verif_bytes, ?verif_bytes>', 'verif_bytes_map', None),
    (r'std::set<verif_bytes>', 'verif_bytes_set', None),
]
R_LIMITS = [(r'std::numeric_limits<(\w+)>::(max|min)\(\)', r'VERIF_LIMIT_\1_\2', None)]
R_ASSERTSTR = [(r'assert\(!"([^"]*)"\);', r'assert(false /* \1 */);', None)]

def r_throw(text, table, expect_total=None):
    """R-THROW: `throw E("msg");` -> VERIF_THROW(kind); every throw statement in the text must be in the table"""
    total = 0
    for pat, kind in table:
        text, k = re.subn(r'throw\s+' + pat + r'\s*;', f'VERIF_THROW({kind});', text)
        total += k
    left = re.findall(r'\bthrow\b[^;]*;', text)
    if left:
        raise SliceError(f"R-THROW: unclassified throw statement(s) in sliced text: {left[:3]}")
    if expect_total is not None and total != expect_total:
        raise SliceError(f"R-THROW fired {total} times, expected {expect_total}")
    return text

THROW_TABLE = [
    (r'scriptnum_error\("script number overflow"\)', 'VT_SCRIPTNUM_OVERFLOW'),
    (r'scriptnum_error\("non-minimally encoded script number"\)', 'VT_SCRIPTNUM_NONMINIMAL'),
    (r'std::runtime_error\("popstack\(\): stack empty"\)', 'VT_POPSTACK_EMPTY'),
    (r'std::runtime_error\("CScript::operator<<\(\): invalid opcode"\)', 'VT_INVALID_OPCODE'),
]

def struct_fields(text, struct_name):
    sm = re.search(r'^struct ' + struct_name + r'\b[^{]*\{(.*?)^\};', text, re.M | re.S)
    if not sm:
        raise SliceError(f"struct {struct_name} not found for R-AUTO")
    fields = {}
    for l in sm.group(1).split('\n'):
        m = re.match(r'\s*(.+?)\s*(&?)\s*(\w+);\s*$', l)
        if m and '(' not in l:
            fields[m.group(3)] = m.group(1).strip()
    return fields

def r_auto(text, fields, obj='env', expect=None):
    """R-AUTO: `auto& x = env.f;` -> `<declared type of f>& x = env.f;`"""
    def fix(m):
        f = m.group(3)
        if f not in fields:
            raise SliceError(f"R-AUTO: field {f} not found")
        return f"{m.group(1)}{fields[f]}& {m.group(2)} = {obj}.{f};"
    text, k = re.subn(r'^(\s*)auto& (\w+) = ' + re.escape(obj) + r'\.(\w+);', fix, text, flags=re.M)
    if expect is not None and k != expect:
        raise SliceError(f"R-AUTO fired {k} times, expected {expect}")
    return text

# ---- R-EXC: exception propagation encoded as a flag ------------------------------------------------------------
# CBMC's C++ front end does not propagate a throw to a handler in another frame.  In L2 units a callee that may
# raise sets `verif_thrown` (ghost) and returns; each call statement of such a callee is followed by a propagation
# check: inside a try block control jumps to that block's handler, elsewhere the function returns (its return value
# is never used by a propagating caller).  try/catch blocks become plain blocks plus a handler guarded by the flag.
_EXC_LABEL = [0]
def r_exc(text, call_patterns, default_return='false'):
    """call_patterns: list of (regex of a full statement containing the call, replacement template using {PROP}),
    applied everywhere; {PROP} expands to `goto verif_catch_N;` inside the N-th try block and `return <default>;` outside."""
    out = []
    pos = 0
    n_try = 0
    tries = []   # (start_of_try_kw, open_brace, close_brace_end, catch_hdr_start, catch_open, catch_close_end)
    for m in re.finditer(r'\btry\s*\{', text):
        ob = m.end() - 1
        ce = _scan(text, ob)
        mc = re.compile(r'\s*catch\s*\(([^)]*)\)\s*\{').match(text, ce)
        if not mc:
            raise SliceError("R-EXC: try block without a recognisable catch clause")
        cob = mc.end() - 1
        cce = _scan(text, cob)
        tries.append((m.start(), ob, ce, mc.start(), cob, cce, mc.group(1)))
    base_lbl = _EXC_LABEL[0]; _EXC_LABEL[0] += len(tries)
    def in_try(p):
        for k, t in enumerate(tries):
            if t[1] < p < t[2]: return base_lbl + k + 1
        return 0
    # 1. rewrite calls
    def sub_calls(seg, base):
        res = seg
        for pat, tmpl in call_patterns:
            def rep(mm):
                k = in_try(base + mm.start())
                prop = f'goto verif_catch_{k};' if k else f'return {default_return};'
                return mm.expand(tmpl).replace('{PROP}', prop)
            res = re.sub(pat, rep, res)
        return res
    # process text piecewise so that offsets used by in_try stay those of the original text
    pieces = []
    cuts = sorted(set([0, len(text)] + [x for t in tries for x in (t[0], t[1] + 1, t[2] - 1, t[5])]))
    res = ''
    last = 0
    for k, t in enumerate(tries):
        n = base_lbl + k + 1
        res += sub_calls(text[last:t[0]], last)
        body = text[t[1] + 1:t[2] - 1]
        res += '{ /* try */' + sub_calls(body, t[1] + 1) + f' goto verif_after_{n}; }} verif_catch_{n}: {{ verif_thrown = 0; /* catch ({t[6]}) */'
        handler = text[t[4] + 1:t[5] - 1]
        handler = re.sub(r'\b\w+\.what\(\)', 'verif_what()', handler)
        res += sub_calls(handler, t[4] + 1) + f'}} verif_after_{n}: ;'
        last = t[5]
    res += sub_calls(text[last:], last)
    return res, len(tries)

# ---- R-NSDMI: CBMC's C++ front end ignores default member initialisers (`T m = v;` inside a class) ----------------
def r_nsdmi(text, classname, expect=None):
    """move the default member initialisers of class/struct `classname` into a generated default constructor"""
    m = re.search(r'^(class|struct) ' + classname + r'\b[^{;]*\{', text, re.M)
    if not m:
        raise SliceError(f"R-NSDMI: class {classname} not found")
    ob = m.end() - 1
    ce = _scan(text, ob)
    body = text[ob + 1:ce - 1]
    # members at brace depth 0 of the class body
    out = []; inits = []; depth = 0; i = 0
    lines = body.split('\n')
    for ln in lines:
        stripped = re.sub(r'//.*', '', ln)
        if depth == 0:
            mm = re.match(r'^(\s*)((?:const\s+)?[\w:<>]+(?:\s*[\*&])?)\s+(\w+)\s*=\s*([^;{}]+);\s*$', stripped)
            if mm and not re.match(r'\s*(static|return|typedef|using|constexpr)\b', stripped):
                inits.append((mm.group(3), mm.group(4).strip()))
                ln = f"{mm.group(1)}{mm.group(2)} {mm.group(3)};   // (default member initialiser moved to the generated constructor: R-NSDMI)"
        depth += stripped.count('{') - stripped.count('}')
        out.append(ln)
    if expect is not None and len(inits) != expect:
        raise SliceError(f"R-NSDMI({classname}): {len(inits)} default member initialisers, expected {expect}")
    if not inits:
        return text
    if re.search(r'\b' + classname + r'\s*\(\s*\)', body):
        raise SliceError(f"R-NSDMI({classname}): class already has a default constructor")
    ctor = f"public: {classname}() : " + ', '.join(f"{n}({v})" for n, v in inits) + " {}   // generated by R-NSDMI\n"
    return text[:ob + 1] + '\n'.join(out) + ctor + text[ce - 1:]

def replace_block_body(text, anchor, new_body, expect=1):
    """replace the brace-enclosed body of the statement starting at `anchor` (an `if (...) {` line) by `new_body`"""
    ms = list(re.finditer(anchor, text, re.M))
    if len(ms) != expect:
        raise SliceError(f"replace_block_body: anchor {anchor!r}: expected {expect} match(es), got {len(ms)}")
    m = ms[0]
    ob = text.index('{', m.end() - 1)
    ce = _scan(text, ob)
    return text[:ob + 1] + ' ' + new_body + ' ' + text[ce - 1:]


# ---- lint: CBMC's C++ front end gives `c ? a : b` the type of its LAST operand.  A conditional expression in sliced code whose
# last operand is visibly narrower than the middle one (integer / bool literal or comparison against a call, cast or wider
# expression) would be mis-compiled: the unit is refused (exit 2) until the expression gets an R-TERN rewrite.
def lint_ternaries(text, what):
    code = re.sub(r'//[^\n]*', '', text)
    code = re.sub(r'"(?:[^"\\\n]|\\.)*"', '""', code)
    bad = []
    for m in re.finditer(r'\?([^?:;{}]*):\s*((?:0x[0-9a-fA-F]+|\d+|true|false|\([^()]*[=!<>]=?[^()]*\)))\s*[;),]', code):
        mid = m.group(1).strip(); last = m.group(2).strip()
        if re.fullmatch(r'(0x[0-9a-fA-F]+|\d+|true|false|\'[^\']*\'|"[^"]*")', mid):   # literal vs literal: same rank in practice
            continue
        bad.append((mid + ' : ' + last)[:80])
    if bad:
        raise SliceError(f"lint_ternaries({what}): conditional expression(s) whose last operand is narrower than the middle one: {bad[:3]}")

_CONSTDEF_RE = re.compile(r'^([ \t]*)static (constexpr|const) ((?:unsigned |signed )?[A-Za-z_][\w:]*(?: int| long)?) (\w+)\s*(=\s*([^;{}\n]+)|\{([^;{}\n]+)\});[ \t]*(//[^\n]*)?$', re.M)
def r_constorder(text):
    """R-CONSTORDER (front-end defect 4, DESIGN.md section 9): CBMC runs the initialisers of static objects in symbol-name order, so
    `static constexpr size_t MAX = BASE + NODE * COUNT;` reads BASE / NODE / COUNT before they are initialised (as 0).  Every
    integral static constant whose initialiser names another such constant gets the named constants replaced by their own
    (parenthesised) initialisers, recursively, so that only literals and enumerators remain.  Returns (text, number rewritten)."""
    defs = {}
    for m in _CONSTDEF_RE.finditer(text):
        defs[m.group(4)] = (m.group(6) or m.group(7)).strip()
    def expand(expr, depth=0):
        if depth > 8: raise SliceError("R-CONSTORDER: cyclic constant definition")
        def sub(mm):
            nm = mm.group(0)
            return '(' + expand(defs[nm], depth + 1) + ')' if nm in defs else nm
        return re.sub(r'\b[A-Za-z_]\w*\b', sub, expr)
    count = [0]
    def fix(m):
        expr = (m.group(6) or m.group(7)).strip()
        if not any(re.search(r'\b' + re.escape(n) + r'\b', expr) for n in defs if n != m.group(4)): return m.group(0)
        count[0] += 1
        return f"{m.group(1)}static {m.group(2)} {m.group(3)} {m.group(4)} = {expand(expr)};   /* R-CONSTORDER: was `{expr}` */"
    return _CONSTDEF_RE.sub(fix, text), count[0]
