#!/usr/bin/env python3
"""Slicer: extracts functions / classes / enum blocks VERBATIM from /repo by anchor regex + comment/string-aware
brace matching and applies the fixed, must-fire rewrite rules of DESIGN.md section 3.1.

Every failure here raises SliceError -> the check exits 2 (extraction/tool limit), never a VIOLATION."""
import re, hashlib, os

REPO = os.environ.get('VERIF_REPO', '/repo')

class SliceError(Exception):
    pass

PROVENANCE = []   # (path, first_line, last_line, sha256) of every sliced region, reported in evidence

def _read(path):
    p = path if os.path.isabs(path) else os.path.join(REPO, path)
    try:
        return open(p).read()
    except OSError as e:
        raise SliceError(f"cannot read {p}: {e}")

def _scan(src, i):
    """index just after the '}' matching the '{' at src[i]; aware of strings, chars, // and /* */ comments"""
    assert src[i] == '{'
    depth = 0
    n = len(src)
    while i < n:
        c = src[i]
        if c == '/' and i + 1 < n and src[i+1] == '/':
            j = src.find('\n', i)
            i = n if j < 0 else j
            continue
        if c == '/' and i + 1 < n and src[i+1] == '*':
            j = src.find('*/', i)
            if j < 0: break
            i = j + 2
            continue
        if c == '"':
            i += 1
            while i < n and src[i] != '"':
                if src[i] == '\\': i += 1
                i += 1
            i += 1
            continue
        if c == "'":
            i += 1
            while i < n and src[i] != "'":
                if src[i] == '\\': i += 1
                i += 1
            i += 1
            continue
        if c == '{':
            depth += 1
        elif c == '}':
            depth -= 1
            if depth == 0:
                return i + 1
        i += 1
    raise SliceError("unbalanced braces while slicing")

def _note(path, src, start, end):
    a = src.count('\n', 0, start) + 1
    b = src.count('\n', 0, end) + 1
    PROVENANCE.append((path, a, b, hashlib.sha256(src[start:end].encode()).hexdigest()[:16]))
    return a, b

def block(path, anchor, trailing=';', open_at_bol=False, which=0, count=1):
    """text from the line matching `anchor` through the matching close brace (+ optional trailing text)"""
    src = _read(path)
    ms = list(re.finditer(anchor, src, re.M))
    if len(ms) != count:
        raise SliceError(f"anchor {anchor!r} in {path}: expected {count} match(es), got {len(ms)}")
    m = ms[which]
    start = src.rfind('\n', 0, m.start()) + 1
    try:
        b = src.index('\n{', m.start()) + 1 if open_at_bol else src.index('{', m.start())
    except ValueError:
        raise SliceError(f"no opening brace after anchor {anchor!r} in {path}")
    end = _scan(src, b)
    if trailing and src[end:end+len(trailing)] == trailing:
        end += len(trailing)
    a, bb = _note(path, src, start, end)
    return f"// ---- sliced verbatim from {path}:{a}-{bb}\n" + src[start:end] + "\n"

def body_of(path, anchor, **kw):
    """like block() but returns (header_text, body_text_with_braces)"""
    t = block(path, anchor, trailing=None, **kw)
    i = t.index('{', t.index('\n') + 1)
    return t[:i], t[i:]

def between(path, start_anchor, end_anchor, include_end=False):
    """lines from the one matching start_anchor up to (not including, unless include_end) the first later line matching end_anchor"""
    src = _read(path)
    ms = list(re.finditer(start_anchor, src, re.M))
    if len(ms) != 1:
        raise SliceError(f"anchor {start_anchor!r} in {path}: expected 1 match, got {len(ms)}")
    start = src.rfind('\n', 0, ms[0].start()) + 1
    me = re.compile(end_anchor, re.M).search(src, ms[0].end())
    if not me:
        raise SliceError(f"end anchor {end_anchor!r} not found after {start_anchor!r} in {path}")
    end = src.rfind('\n', 0, me.start()) + 1
    if include_end:
        j = src.find('\n', me.end())
        end = len(src) if j < 0 else j + 1
    a, b = _note(path, src, start, end)
    return f"// ---- sliced verbatim from {path}:{a}-{b}\n" + src[start:end] + "\n"

def rewrite(text, rules):
    """rules: (pattern, replacement, expected_count or None for 'any number >= 0' or '+' for 'at least one')"""
    for pat, rep, expect in rules:
        text, k = re.subn(pat, rep, text, flags=re.M)
        if expect == '+':
            if k < 1: raise SliceError(f"rewrite rule {pat!r} did not fire (expected at least once)")
        elif expect is not None and k != expect:
            raise SliceError(f"rewrite rule {pat!r} fired {k} times, expected {expect}")
    return text

# ---- the fixed rule sets (DESIGN.md 3.1) -------------------------------------------------------------------
R_TYPES = [
    (r'std::vector<std::vector<unsigned char> ?>', 'verif_stack', None),
    (r'std::vector<std::vector<uint8_t> ?>', 'verif_stack', None),
    (r'std::vector<valtype>', 'verif_stack', None),
    (r'std::vector<(unsigned char|uint8_t)>', 'verif_bytes', None),
    (r'std::map<verif_bytes, ?verif_bytes>', 'verif_bytes_map', None),
    (r'std::set<verif_bytes>', 'verif_bytes_set', None),
]
R_LIMITS = [(r'std::numeric_limits<(\w+)>::(max|min)\(\)', r'VERIF_LIMIT_\1_\2', None)]
R_ASSERTSTR = [(r'assert\(!"([^"]*)"\);', r'assert(false /* \1 */);', None)]

def r_throw(text, table, expect_total=None):
    """R-THROW: `throw E("msg");` -> VERIF_THROW(kind); every throw statement in the text must be in the table"""
    total = 0
    for pat, kind in table:
        text, k = re.subn(r'throw\s+' + pat + r'\s*;', f'VERIF_THROW({kind});', text)
        total += k
    left = re.findall(r'\bthrow\b[^;]*;', text)
    if left:
        raise SliceError(f"R-THROW: unclassified throw statement(s) in sliced text: {left[:3]}")
    if expect_total is not None and total != expect_total:
        raise SliceError(f"R-THROW fired {total} times, expected {expect_total}")
    return text

THROW_TABLE = [
    (r'scriptnum_error\("script number overflow"\)', 'VT_SCRIPTNUM_OVERFLOW'),
    (r'scriptnum_error\("non-minimally encoded script number"\)', 'VT_SCRIPTNUM_NONMINIMAL'),
    (r'std::runtime_error\("popstack\(\): stack empty"\)', 'VT_POPSTACK_EMPTY'),
    (r'std::runtime_error\("CScript::operator<<\(\): invalid opcode"\)', 'VT_INVALID_OPCODE'),
]

def struct_fields(text, struct_name):
    sm = re.search(r'^struct ' + struct_name + r'\b[^{]*\{(.*?)^\};', text, re.M | re.S)
    if not sm:
        raise SliceError(f"struct {struct_name} not found for R-AUTO")
    fields = {}
    for l in sm.group(1).split('\n'):
        m = re.match(r'\s*(.+?)\s*(&?)\s*(\w+);\s*$', l)
        if m and '(' not in l:
            fields[m.group(3)] = m.group(1).strip()
    return fields

def r_auto(text, fields, obj='env', expect=None):
    """R-AUTO: `auto& x = env.f;` -> `<declared type of f>& x = env.f;`"""
    def fix(m):
        f = m.group(3)
        if f not in fields:
            raise SliceError(f"R-AUTO: field {f} not found")
        return f"{m.group(1)}{fields[f]}& {m.group(2)} = {obj}.{f};"
    text, k = re.subn(r'^(\s*)auto& (\w+) = ' + re.escape(obj) + r'\.(\w+);', fix, text, flags=re.M)
    if expect is not None and k != expect:
        raise SliceError(f"R-AUTO fired {k} times, expected {expect}")
    return text
