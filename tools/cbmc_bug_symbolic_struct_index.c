#include <stddef.h>
struct B { unsigned char a[16]; size_t n; };
struct S { size_t base; struct B w[2]; size_t n; };
int main(void) {
  struct S st; st.n = 2; __CPROVER_assume(st.base <= 1000);
  size_t i = st.base + st.n - 1;
  struct B* r = st.w + (i - st.base);
  const unsigned char* q = r->a;
  __CPROVER_assert(q[0] == st.w[1].a[0], "d1: no nested struct");
  const unsigned char* q2 = &r->a[0];
  __CPROVER_assert(q2[0] == st.w[1].a[0], "d2: &a[0]");
  size_t k = i - st.base;
  const unsigned char* q3 = st.w[k].a;
  __CPROVER_assert(q3[0] == st.w[1].a[0], "d3: index form");
  __CPROVER_assert(*q3 == st.w[1].a[0], "d4: star");
  __CPROVER_assert(q3[1] == st.w[1].a[1], "d5: [1]");
  struct B* r1 = &st.w[1];
  const unsigned char* q4 = r1->a;
  __CPROVER_assert(q4[0] == st.w[1].a[0], "d6: const index");
  return 0;
}
