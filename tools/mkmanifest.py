#!/usr/bin/env python3
"""regenerates MANIFEST.json from props/*.py (MANIFEST dict of each module) + props/not_applicable.json"""
import json, os, sys, importlib
here = os.path.dirname(os.path.dirname(os.path.abspath(__file__)))
sys.path.insert(0, os.path.join(here, 'tools')); sys.path.insert(0, here)
ids = [json.loads(l)['id'] for l in open(os.path.join(here, 'properties.jsonl'))]
na = json.load(open(os.path.join(here, 'props', 'not_applicable.json')))
checks = []; napp = []
for pid in ids:
    try:
        m = importlib.import_module('props.' + pid)
    except ModuleNotFoundError:
        m = None
    if m is not None and hasattr(m, 'MANIFEST'):
        e = m.MANIFEST
        checks.append({'property_id': pid, 'quick_cmd': f'./check {pid} quick', 'thorough_cmd': f'./check {pid} thorough',
                       'evidence_file': f'/verif/evidence/{pid}.json', 'replay_cmd_template': './check --replay {path}',
                       'engine': 'cbmc-contracts',
                       'level_claimed': {'category': m.META['level'], 'text': e['text'], 'design_ref': e.get('design_ref', 'DESIGN.md section 6')},
                       'level_note': e['note'], 'technique': e['technique']})
    else:
        napp.append({'property_id': pid, 'reason': na.get(pid, 'no contract within reach of the installed verifier decides this property (see DESIGN.md section 8)')})
man = {'version': 1, 'setup_cmd': './setup.sh',
       'hooks': {'guard': 'BTCDEB_VERIF', 'enable': 'no hooks are compiled into /repo: the checks slice the working tree textually (tools/slice.py); the guard name is reserved', 
                 'baseline_off_cmd': 'cd /repo && make -j8 test-btcdeb >/dev/null 2>&1 && ./test-btcdeb', 'source_commits': [], 'add_only': True},
       'engines': [{'name': 'cbmc-contracts', 'path': 'tools/vf.py', 'serves_properties': [c['property_id'] for c in checks],
                    'kind_free_text': 'CBMC 6.11 code contracts (goto-instrument --dfcc) and assume/assert contract harnesses over units sliced verbatim from /repo on every run'}],
       'checks': checks, 'not_applicable': napp,
       'notes': 'exit 0 = all obligations discharged; exit 1 = VIOLATION (failed obligation, replayed natively where a counterexample exists); exit 2 = undecided (timeout, extraction break, model limit). See DESIGN.md.'}
json.dump(man, open(os.path.join(here, 'MANIFEST.json'), 'w'), indent=1)
print(f"{len(checks)} checks, {len(napp)} not applicable")
