#!/bin/bash
# run every stored seeded change against the quick check of its property; writes seeded/RESULTS.md
# The change is applied to a scratch worktree of /repo's HEAD (never to /repo itself) and the check is pointed at it with
# VERIF_REPO.  The worktree (default /tmp/wt_seedtest) is created and built on demand and removed at the end unless KEEP_WT=1.
# usage: tools/run_seedtests.sh [seed dir glob, default 'seeded/C*/*s[0-9]']   (seeds outside the glob keep their stored result.txt)
cd /verif
WT=${WT:-/tmp/wt_seedtest}
if [ ! -d "$WT" ]; then
  git -C /repo worktree add --detach "$WT" HEAD >/dev/null 2>&1 || { echo "cannot create worktree $WT"; exit 2; }
  (cd "$WT" && ./autogen.sh >/dev/null 2>&1 && ./configure >/dev/null 2>&1 && make -j16 >/dev/null 2>&1) || { echo "scratch build failed"; exit 2; }
  CREATED=1
fi
OUT=seeded/RESULTS.md
PATTERN=${1:-'seeded/C*/*s[0-9]'}
for d in $PATTERN; do
  pid=$(echo $d | cut -d/ -f2)
  R=/verif/$d/result.txt; : > $R
  [ -f props/$pid.py ] || { echo "| $d | $pid | - | property not claimed |" >> $R; continue; }
  P="/verif/$d/patch.diff"; [ -f "/verif/$d/patch_repaired.diff" ] && P="/verif/$d/patch_repaired.diff"
  (cd "$WT" && git checkout -q -- . && (git apply "$P" 2>/dev/null || patch -p1 -s --no-backup-if-mismatch -F3 < "$P" >/dev/null 2>&1))
  if [ $? -ne 0 ]; then git -C "$WT" checkout -q -- .; echo "| $d | $pid | - | patch no longer applies to the repaired tree |" >> $R; continue; fi
  # a seed may name other checks that decide it (file `also_checks`, one property id per line)
  for chk in $pid $(cat /verif/$d/also_checks 2>/dev/null); do
    VERIF_REPO="$WT" VERIF_EVIDENCE_DIR=/tmp/seed_evidence ./check $chk quick > /tmp/seedrun.log 2>&1; rc=$?
    v=$(grep -E "^VIOLATION" /tmp/seedrun.log | sed -E 's/.*obligation="([^"]*)" query=([a-z0-9_A-Z]*)(.*)/\2: \1\3/' | cut -c1-150 | head -3 | tr '\n' ';' | tr '|' '/')
    u=$(grep -E "^  [a-z0-9_]+: " /tmp/seedrun.log | head -2 | cut -c1-140 | tr '\n' ';' | tr '|' '/')
    echo "| $d | $chk | $rc | ${v}${u} |" >> $R
    echo "$d vs $chk rc=$rc"
  done
  git -C "$WT" checkout -q -- .
done
rm -rf /tmp/seed_evidence /tmp/seedrun.log
[ -n "$CREATED" ] && [ -z "$KEEP_WT" ] && git -C /repo worktree remove --force "$WT"
# assemble the table from the per-seed result files (seeds not re-run keep their last result)
echo "# Seeded changes vs. checks (quick tier; rows written by tools/run_seedtests.sh, one result.txt per seed; assembled $(date -u +%F))" > $OUT
echo "" >> $OUT
echo "| seed | check | exit | verdict lines |" >> $OUT
echo "|---|---|---|---|" >> $OUT
cat seeded/C*/*/result.txt >> $OUT
echo "" >> $OUT
echo "exit 1 = caught (VIOLATION), exit 0 = missed, exit 2 = undecided (the change made the unit unparsable or hit a model limit)." >> $OUT
