#!/bin/bash
# verify_seed.sh <worktree> <n> <property> <outname>: confirm a sub-agent's seeded change myself, then store it under /verif/seeded/<property>/<outname>/
# (1) pristine: demo passes  (2) patched: builds, test suite passes, demo fails  (3) restore pristine
set -u
WT=$1; N=$2; PID=$3; NAME=$4
cd "$WT" || exit 2
S="$WT/_seed/$N"
LOG="$S/verify.log"; : > "$LOG"
git checkout -q -- . || exit 2
make -j8 >>"$LOG" 2>&1 || { echo "pristine build failed"; exit 2; }
bash "$S/demo.sh" "$WT" >>"$LOG" 2>&1; r0=$?
git apply "$S/patch.diff" || { echo "patch does not apply"; exit 2; }
make -j8 >>"$LOG" 2>&1; rb=$?
./test-btcdeb >>"$LOG" 2>&1; rt=$?
bash "$S/demo.sh" "$WT" >>"$LOG" 2>&1; r1=$?
git checkout -q -- .
make -j8 >>"$LOG" 2>&1
echo "seed $PID/$NAME: demo_pristine_rc=$r0 build_rc=$rb tests_rc=$rt demo_patched_rc=$r1"
if [ $r0 -eq 0 ] && [ $rb -eq 0 ] && [ $rt -eq 0 ] && [ $r1 -ne 0 ]; then
  D=/verif/seeded/$PID/$NAME; mkdir -p "$D"
  cp "$S/patch.diff" "$D/"; cp "$S"/demo* "$D/" 2>/dev/null; cp "$S"/*.py "$D/" 2>/dev/null; cp "$S"/../*.py "$S"/../*.txt "$D/" 2>/dev/null
  python3 - "$S/meta.json" "$D/meta.json" "$r0" "$rb" "$rt" "$r1" <<'PY'
import json,sys
m=json.load(open(sys.argv[1]))
m['confirmed_by_me']={'demo_on_pristine_rc':int(sys.argv[3]),'build_with_patch_rc':int(sys.argv[4]),'test_suite_with_patch_rc':int(sys.argv[5]),'demo_with_patch_rc':int(sys.argv[6]),
  'what_i_ran':'tools/verify_seed.sh: pristine build + demo (passes); git apply patch; make; ./test-btcdeb (all pass); demo (fails); git checkout; rebuild'}
json.dump(m,open(sys.argv[2],'w'),indent=1)
PY
  echo CONFIRMED
else
  echo REJECTED
fi
