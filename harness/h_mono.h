// h_mono.h -- lemma over the step specification (no code from /repo is executed): verification flags only restrict.
// For every operation, state and flag sets A subset of B: if the rules let the step succeed under B they let it succeed
// under A with the identical post-state.  Valid for the real interpreter because C01 establishes StepScript == spec_step;
// by induction over the script a run that succeeds under B succeeds under A (L1 part of property C09).
#pragma once
typedef verif_bytes sbytes; typedef verif_stack sstack;
#ifdef H_MONO_SIG
#define SPEC_WITH_SIG
#endif
#include "spec_step.h"
#ifndef H_N
#define H_N 0
#endif
#ifndef H_AN
#define H_AN 0
#endif
static bool m_items_eq(const verif_stack& a, const verif_stack& b) {
    if (a.base != b.base || a.n != b.n) return false;
    for (size_t i = 0; i < VERIF_STACK_W; ++i) if (i < a.n && !(a.w[i] == b.w[i])) return false;
    return true;
}
extern "C" void h_mono(void) {
    SpecCtx cB; SpecState s0;
    __CPROVER_havoc_object(&cB); __CPROVER_havoc_object(&s0);
    s0.stack.n = H_N; s0.alt.n = H_AN;
#ifdef H_BASE0
    s0.stack.base = 0;
#else
    __CPROVER_assume(s0.stack.base <= 1000000000UL);
#endif
    __CPROVER_assume(s0.alt.base <= 1000000000UL);
    for (size_t i = 0; i < VERIF_STACK_W; ++i) { __CPROVER_assume(s0.stack.w[i].n <= VERIF_ITEM_CAP); __CPROVER_assume(s0.alt.w[i].n <= VERIF_ITEM_CAP); }
    __CPROVER_assume(cB.opcode <= 0xff && (H_OPSEL(cB.opcode)));
#ifdef H_MONO_SIG
    __CPROVER_assume(cB.sv == SSV_BASE || cB.sv == SSV_WITNESS_V0 || cB.sv == SSV_TAPSCRIPT || cB.sv == SSV_TAPROOT);
    __CPROVER_assume(cB.sv != SSV_TAPROOT || cB.opcode == SOP_CHECKSIG);    // the key-path spend is the single operation <key> CHECKSIG
#else
    __CPROVER_assume(cB.sv == SSV_BASE || cB.sv == SSV_WITNESS_V0 || cB.sv == SSV_TAPSCRIPT);
#endif
    __CPROVER_assume(cB.push.n <= VERIF_ITEM_CAP || (cB.push.n > 520 && cB.push.n <= 10000));
    __CPROVER_assume(cB.opcode <= SOP_PUSHDATA4 || cB.push.n == 0);
    __CPROVER_assume(s0.nOpCount >= 0 && s0.nOpCount <= 201);
    __CPROVER_assume(s0.cs_size <= 2000000000UL && (s0.cs_first_false == SPEC_NO_FALSE || s0.cs_first_false < s0.cs_size));
    s0.codesep_moved = false; s0.locktime_calls = 0; s0.sequence_calls = 0; s0.hash_calls = 0; s0.hash_algo = 0; s0.locktime_arg = 0; s0.sequence_arg = 0;
#ifdef H_ALLOW_DISABLED
    cB.allow_disabled = (H_ALLOW_DISABLED != 0);
#endif
    SpecCtx cA = cB;
    unsigned int drop = nondet_uint();
    cA.flags = cB.flags & ~drop;                          // A is any subset of B
    SpecState sA = s0, sB = s0;
#ifdef H_MONO_SIG
    // signature opcodes: the cryptographic verdicts (ECDSA / Schnorr verification, low-S, FindAndDelete counts, the
    // --pretend-valid pair) are oracles that do not depend on the flags: the same arbitrary verdicts serve both runs
    SpecSigOracles orc; SpecSigUse useA, useB;
    for (int i = 0; i < VERIF_ORACLE_N; ++i) { orc.ecdsa_ok[i] = nondet_bool(); int f = nondet_int(); __CPROVER_assume(f >= 0 && f <= 3); orc.fad_result[i] = f; }
    orc.schnorr_ok = nondet_bool(); orc.schnorr_err = nondet_int(); __CPROVER_assume(orc.schnorr_err >= (int)SCRIPT_ERR_SCHNORR_SIG_SIZE && orc.schnorr_err <= (int)SCRIPT_ERR_SCHNORR_SIG);
    orc.lows_ok = nondet_bool(); orc.mock_on = nondet_bool(); __CPROVER_havoc_object(&orc.mock_sig); __CPROVER_havoc_object(&orc.mock_key);
    __CPROVER_assume(orc.mock_sig.n <= VERIF_ITEM_CAP && orc.mock_key.n <= VERIF_ITEM_CAP);
    useB.ecdsa_calls = 0; useB.schnorr_calls = 0; useB.fad_calls = 0; useB.weight = nondet_long(); __CPROVER_assume(useB.weight >= -1000 && useB.weight <= 4000000);
    useA.ecdsa_calls = 0; useA.schnorr_calls = 0; useA.fad_calls = 0; useA.weight = useB.weight;   // (field-wise: the front end cannot generate the default assignment)
#ifdef H_MS_KEYS
    s0.stack.w[H_N - 1] = spec_enc(H_MS_KEYS); s0.stack.w[H_N - 2 - H_MS_KEYS] = spec_enc(H_MS_SIGS); sA = s0; sB = s0;
#endif
    g_spec_orc = &orc;
    g_spec_use = &useB; SpecOut oB = spec_step(cB, sB);
    g_spec_use = &useA; SpecOut oA = spec_step(cA, sA);
#else
    SpecOut oB = spec_step(cB, sB);
    SpecOut oA = spec_step(cA, sA);
#endif
    __CPROVER_assert(oB.kind != SO_OK, "canary: success under the larger flag set is reachable");
#ifdef H_MONO_FLAGGED
    __CPROVER_assert(!(oB.kind != SO_OK && oA.kind == SO_OK), "canary: a flag that turns success into failure exists (restriction is real)");
#endif
    if (oB.kind == SO_OK) {
        __CPROVER_assert(oA.kind == SO_OK, "lemma: a step that succeeds under flag set B succeeds under every subset A of B");
        __CPROVER_assert(m_items_eq(sA.stack, sB.stack) && m_items_eq(sA.alt, sB.alt), "lemma: ... with the same main and alt stack");
        __CPROVER_assert(sA.cs_size == sB.cs_size && sA.cs_first_false == sB.cs_first_false && sA.nOpCount == sB.nOpCount && sA.codesep_moved == sB.codesep_moved && sA.codesep_pos == sB.codesep_pos, "lemma: ... with the same conditional nesting, op count and code-separator state");
#ifdef H_MONO_SIG
        __CPROVER_assert(useA.weight == useB.weight && useA.ecdsa_calls == useB.ecdsa_calls && useA.schnorr_calls == useB.schnorr_calls, "lemma: ... with the same signature budget and the same verifications requested");
#endif
    }
}
