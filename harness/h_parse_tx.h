// h_parse_tx.h -- contract of the amount-list front end of Instance::parse_transaction (property C13): "A1,A2:HEX".
// Each amount substring reaches the amount parser unaltered (same characters, same length), in order; the transaction
// parser gets exactly the text after the colon; amounts are padded with zeros up to the number of inputs.
#pragma once
#ifndef H_PT_L1
#define H_PT_L1 3
#endif
#ifndef H_PT_L2
#define H_PT_L2 5
#endif
static char h_amount_char() { char c = (char)nondet_uchar(); __CPROVER_assume(c != 0 && c != ',' && c != ':'); return c; }
extern "C" void h_parse_tx_amounts(void) {
    char txt[H_PT_L1 + H_PT_L2 + 8]; size_t n = 0;
    for (size_t i = 0; i < H_PT_L1; ++i) txt[n++] = h_amount_char();
    txt[n++] = ',';
    for (size_t i = 0; i < H_PT_L2; ++i) txt[n++] = h_amount_char();
    txt[n++] = ':'; const size_t hex_at = n; txt[n++] = 'a'; txt[n++] = 'b'; txt[n] = 0;
    CTransaction tx; tx.vin.n = nondet_size(); __CPROVER_assume(tx.vin.n <= 4); tx.witness = nondet_bool();
    g_parse_tx_result = &tx; g_parse_tx_calls = 0; g_pfp_calls = 0; g_dup_live = 0;
    for (int k = 0; k < 3; ++k) { g_pfp_ok[k] = nondet_bool(); g_pfp_val[k] = nondet_long(); }
    Instance inst; inst.tx = 0; inst.sigver = SigVersion::BASE;
    bool r = inst.parse_transaction(txt, true);
    __CPROVER_assert(g_pfp_calls >= 1 && g_pfp_arg[0].n == H_PT_L1, "spec: the first amount reaches the amount parser with its full length");
    for (size_t i = 0; i < H_PT_L1; ++i) __CPROVER_assert(g_pfp_arg[0].c[i] == txt[i], "spec: the first amount reaches the amount parser with exactly its characters");
    if (!g_pfp_ok[0]) { __CPROVER_assert(!r && g_parse_tx_calls == 0, "spec: an unparsable amount rejects the input before any transaction is parsed"); return; }
    __CPROVER_assert(g_pfp_calls == 2 && g_pfp_arg[1].n == H_PT_L2, "spec: the second amount reaches the amount parser with its full length");
    for (size_t i = 0; i < H_PT_L2; ++i) __CPROVER_assert(g_pfp_arg[1].c[i] == txt[H_PT_L1 + 1 + i], "spec: the second amount reaches the amount parser with exactly its characters");
    if (!g_pfp_ok[1]) { __CPROVER_assert(!r && g_parse_tx_calls == 0, "spec: an unparsable amount rejects the input before any transaction is parsed"); return; }
    __CPROVER_assert(r && g_parse_tx_calls == 1 && g_parse_tx_arg == txt + hex_at, "spec: the transaction parser receives exactly the text after the colon");
    __CPROVER_assert(inst.amounts.n == (tx.vin.n > 2 ? tx.vin.n : 2) && inst.amounts.a[0] == g_pfp_val[0] && inst.amounts.a[1] == g_pfp_val[1], "spec: the amounts are the parsed values, in order, padded up to the number of inputs");
    for (size_t i = 2; i < 6; ++i) if (i < inst.amounts.n) __CPROVER_assert(inst.amounts.a[i] == 0, "spec: missing amounts are zero");
    __CPROVER_assert(inst.sigver == (tx.witness ? SigVersion::WITNESS_V0 : SigVersion::BASE), "spec: a transaction with witness data selects segwit rules");
    __CPROVER_assert(g_dup_live == 0, "spec: every temporary copy is released");
    __CPROVER_assert(!r, "canary: accepted amount list reachable");
}
