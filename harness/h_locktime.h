// h_locktime.h -- contracts of the lock-time tests behind OP_CHECKLOCKTIMEVERIFY (BIP65) and OP_CHECKSEQUENCEVERIFY (BIP112)
#pragma once
extern "C" void h_locktime(void) {
    verif_tx tx; __CPROVER_havoc_object(&tx); verif_lockchecker c; c.txTo = &tx; c.nIn = nondet_uint() % 2u;
    int64_t n = nondet_long(); __CPROVER_assume(n >= 0 && n <= 0x7fffffffffL);      // operand: non-negative, at most 5 bytes (enforced by the opcode)
    const uint32_t seq = tx.vin[c.nIn].nSequence;
    // BIP65: same kind (height / time, threshold 500,000,000), operand <= transaction lock time, input not final
    bool e1 = ((tx.nLockTime < 500000000u) == (n < 500000000L)) && n <= (int64_t)tx.nLockTime && seq != 0xffffffffu;
    __CPROVER_assert(c.CheckLockTime(CScriptNum(n)) == e1, "spec: BIP65 - the lock-time test holds exactly when operand and transaction lock time are of the same kind, the operand is not later, and the input is not final");
    // BIP112: version >= 2, relative lock enabled on the input, same kind (bit 22), masked operand <= masked sequence
    const int64_t MASK = (1 << 22) | 0xffff;
    bool e2 = (uint32_t)tx.nVersion >= 2 && (seq & 0x80000000u) == 0 && (((seq & (1u << 22)) != 0) == ((n & (1 << 22)) != 0)) && (n & MASK) <= ((int64_t)seq & MASK);
    __CPROVER_assert(c.CheckSequence(CScriptNum(n)) == e2, "spec: BIP112 - the sequence test holds exactly when the version is at least 2, relative lock time is enabled on the input, both values are of the same kind, and the masked operand is not larger");
    __CPROVER_assert(!e1, "canary: satisfied lock time reachable");
    __CPROVER_assert(!e2, "canary: satisfied sequence lock reachable");
}
