// h_valuector.h -- contract of btcc's / btcdeb's literal classification Value(const char*) for one PLAIN token of up to
// VERIF_TOKEN_CAP characters without whitespace, brackets or parentheses (property C07, classification half):
// "0x" -> empty data; canonical decimal spelling of an int64 -> integer; else opcode name (oracle) -> opcode;
// else hex digits (optional 0x prefix, even count) -> data; else string.
#pragma once
extern "C" void h_valuector(void) {
    char tok[VERIF_TOKEN_CAP + 2]; size_t n = nondet_size(); __CPROVER_assume(n >= 1 && n <= VERIF_TOKEN_CAP);
    for (size_t i = 0; i < VERIF_TOKEN_CAP + 1; ++i) { tok[i] = 0; if (i < n) { char c = (char)nondet_uchar(); __CPROVER_assume(c != 0 && !verif_isspace(c) && c != '[' && c != ']' && c != '(' && c != ')'); tok[i] = c; } }
    unsigned int ob = nondet_uint(); __CPROVER_assume(ob <= 0xff); g_getopcode_result = (opcodetype)ob; g_getopcode_calls = 0;
    // ---- spec
    bool is_0x = n == 2 && tok[0] == '0' && tok[1] == 'x';
    bool is_num = false; long val = 0;
    { size_t i = 0; bool neg = false; if (tok[0] == '-') { neg = true; i = 1; }
      if (i < n && n - i == 1 && tok[i] == '0' && !neg) { is_num = true; val = 0; }
      else if (i < n && tok[i] >= '1' && tok[i] <= '9') { bool digits = true; long v = 0; for (size_t k = 0; k < VERIF_TOKEN_CAP; ++k) if (k >= i && k < n) { if (!(tok[k] >= '0' && tok[k] <= '9')) digits = false; else v = v * 10 + (tok[k] - '0'); }
        if (digits) { is_num = true; val = neg ? -v : v; } } }
    size_t hs = (n > 2 && tok[0] == '0' && tok[1] == 'x' && n % 2 == 0) ? 2 : 0;
    bool is_hex = (n % 2 == 0);
    for (size_t k = 0; k < VERIF_TOKEN_CAP; ++k) if (k >= hs && k < n) { char c = tok[k]; if (!((c >= '0' && c <= '9') || (c >= 'a' && c <= 'f') || (c >= 'A' && c <= 'F'))) is_hex = false; }
    verif_expect_throw = 0;
    Value v(tok);
    if (is_0x) { __CPROVER_assert(v.type == Value::T_DATA && v.data.n == 0, "spec: 0x is the empty byte string"); return; }
    if (is_num) { __CPROVER_assert(v.type == Value::T_INT && v.int64 == val && g_getopcode_calls == 0, "spec: the canonical decimal spelling of an integer is that integer"); }
    else if (ob != 0xff) { __CPROVER_assert(v.type == Value::T_OPCODE && (unsigned int)v.opcode == ob, "spec: an opcode name is that opcode"); }
    else if (is_hex) {
        __CPROVER_assert(v.type == Value::T_DATA && v.data.n == (n - hs) / 2, "spec: an even number of hex digits (with or without 0x) is the data they spell");
        for (size_t k = 0; k < VERIF_TOKEN_CAP / 2; ++k) if (k < (n - hs) / 2) {
            char h = tok[hs + 2 * k], l = tok[hs + 2 * k + 1];
            unsigned int hv = (h <= '9') ? (unsigned int)(h - '0') : (unsigned int)((h | 0x20) - 'a' + 10), lv = (l <= '9') ? (unsigned int)(l - '0') : (unsigned int)((l | 0x20) - 'a' + 10);
            __CPROVER_assert(v.data.s.a[k] == (unsigned char)(hv * 16 + lv), "spec: data bytes are the hex digits, high nibble first");
        }
    } else { __CPROVER_assert(v.type == Value::T_STRING, "spec: anything else is a string"); }
    __CPROVER_assert(!is_num, "canary: integer token reachable");
    __CPROVER_assert(!(is_num && val < 0), "canary: negative integer token reachable");
    __CPROVER_assert(!(is_hex && !is_num && ob == 0xff), "canary: hex token reachable");
}
// ---- long decimal literals: '-'? followed by H_VC_DIGITS symbolic digits (first one non-zero), value inside int64:
// classified as that integer (the boundaries of the 8-byte script numbers live here: 18..19 digits)
#ifndef H_VC_DIGITS
#define H_VC_DIGITS 19
#endif
extern "C" void h_valuector_digits(void) {
    char tok[VERIF_TOKEN_CAP + 2]; size_t n = 0; bool neg = nondet_bool();
    if (neg) tok[n++] = '-';
    unsigned long mag = 0; bool fits = true;
    for (int i = 0; i < H_VC_DIGITS; ++i) {
        unsigned char d = nondet_uchar(); __CPROVER_assume(d <= 9 && (i > 0 || d != 0));
        tok[n++] = (char)('0' + d);
        if (mag > (9223372036854775807UL - d) / 10) fits = false;
        if (fits) mag = mag * 10 + d;
    }
    tok[n] = 0;
    __CPROVER_assume(fits);                        // |value| <= INT64_MAX: representable as int64 with either sign
    g_getopcode_result = (opcodetype)0xff; g_getopcode_calls = 0; verif_expect_throw = 0;
    Value v(tok);
    __CPROVER_assert(v.type == Value::T_INT, "spec: a decimal literal inside the int64 range is an integer, whatever its length");
    __CPROVER_assert(v.type != Value::T_INT || v.int64 == (neg ? -(long)mag : (long)mag), "spec: ... with exactly its value");
    __CPROVER_assert(!neg, "canary: negative long literal reachable");
}
// ---- CONCRETE boundary literals (bounded stand-in, labelled as such: the symbolic 19-digit query above does not finish):
// the longest decimal spellings of int64 values, 15..20 characters, both signs; each must be the integer with exactly its value
#define H_LIT(text, value) do { const char t_[] = text; g_getopcode_result = (opcodetype)0xff; g_getopcode_calls = 0; verif_expect_throw = 0; \
    Value v_(t_); __CPROVER_assert(v_.type == Value::T_INT && v_.int64 == (value), "spec: long decimal literal " text " is the integer with exactly that value"); } while (0)
extern "C" void h_valuector_literals(void) {
    H_LIT("999999999999999", 999999999999999L);
    H_LIT("1000000000000000", 1000000000000000L);
    H_LIT("-100000000000000", -100000000000000L);
    H_LIT("-1000000000000000", -1000000000000000L);
    H_LIT("12345678901234567", 12345678901234567L);
    H_LIT("281474976710656", 281474976710656L);
    H_LIT("72057594037927936", 72057594037927936L);
    H_LIT("9223372036854775807", 9223372036854775807L);
    H_LIT("-9223372036854775807", -9223372036854775807L);
    H_LIT("2147483648", 2147483648L);
    H_LIT("-2147483649", -2147483649L);
    __CPROVER_assert(0, "canary: the literal list was evaluated to the end");
}
