// h_listcount.h -- contract of the section / line-count part of the listing builder of main() (property C12: "the listing equals
// the decoding of the bytes that will be executed, including the scriptPubKey, P2SH and taproot-commitment sections"):
//   sections, in order: the first script; the scriptPubKey when there is one; the P2SH redeem script exactly when the session will
//   evaluate one - i.e. it was constructed on a P2SH scriptPubKey (flag set, pattern matched, stack saved), or the scriptPubKey that
//   follows has the P2SH pattern AND the P2SH flag is set (the condition under which the session arms P2SH evaluation:
//   l2_end_of_script); commitment lines only for tapscript sessions;
//   count = operations of every section + one header line per section after the first + the commitment lines.
#pragma once
extern "C" void h_listing_sections(void) {
    InterpreterEnv e; Instance inst; TaprootCommitmentEnv tce;
    e.script.nops = nondet_int(); inst.successor_script.nops = nondet_int(); g_payload_nops = nondet_int();
    __CPROVER_assume(e.script.nops >= 0 && e.script.nops <= 3 && inst.successor_script.nops >= 0 && inst.successor_script.nops <= 3 && g_payload_nops >= 0 && g_payload_nops <= 3);
    e.script.nbytes = nondet_size(); inst.successor_script.nbytes = nondet_size(); __CPROVER_assume(e.script.nbytes <= 10000 && inst.successor_script.nbytes <= 10000);
    __CPROVER_assume((inst.successor_script.nbytes == 0) == (inst.successor_script.nops == 0) || inst.successor_script.nbytes > 0);
    inst.successor_script.p2sh_pattern = nondet_bool(); e.script.p2sh_pattern = nondet_bool();
    e.is_p2sh = nondet_bool(); e.p2shstack.n = nondet_size(); __CPROVER_assume(e.p2shstack.n <= 1000); { verif_bytes t; __CPROVER_havoc_object(&t); __CPROVER_assume(t.n <= VERIF_ITEM_CAP); e.p2shstack.top = t; }   // (havoc of a member would havoc the whole session object)
    unsigned int sv = nondet_uint() % 4u; e.sigversion = (SigVersion)sv; e.flags = nondet_uint();
    tce.desc_lines = nondet_size(); __CPROVER_assume(tce.desc_lines <= 129); e.tce = &tce;
    // session facts: a tapscript session has no script to follow and is not a P2SH session
    __CPROVER_assume(e.sigversion != SigVersion::TAPSCRIPT || (!e.is_p2sh && inst.successor_script.nbytes == 0));
    count = 0; g_payload_ctor_calls = 0;
    verif_scriptptrs ptrs; bool has_p2sh = false; size_t tc_lines = 0;
    verif_listing_sections(&e, inst, ptrs, has_p2sh, tc_lines);
    const bool succ = inst.successor_script.nbytes > 0;
    const bool redeem = (e.is_p2sh && e.p2shstack.n > 0) || (succ && (e.flags & SCRIPT_VERIFY_P2SH) != 0 && inst.successor_script.p2sh_pattern);
    const bool tap = e.sigversion == SigVersion::TAPSCRIPT;
    __CPROVER_assert(has_p2sh == redeem, "spec: the listing has a P2SH section exactly when the session will evaluate a redeem script (P2SH flag set and the scriptPubKey has the P2SH pattern)");
    __CPROVER_assert(ptrs.n == 1 + (succ ? 1 : 0) + (redeem ? 1 : 0) && ptrs.p[0] == &e.script && (!succ || ptrs.p[1] == &inst.successor_script), "spec: sections in execution order: first script, scriptPubKey, redeem script");
    __CPROVER_assert(tc_lines == (tap ? tce.desc_lines : 0), "spec: commitment lines only for tapscript sessions");
    if (ptrs.n == 1 + (succ ? 1 : 0) + (redeem ? 1 : 0)) {
        int expect = e.script.nops + (tap ? (int)tce.desc_lines : 0) + (succ ? 1 + inst.successor_script.nops : 0) + (redeem ? 1 + g_payload_nops : 0);
        __CPROVER_assert(count == expect, "spec: the number of listing lines is the number of operations of every section plus one header per later section plus the commitment lines");
    }
    __CPROVER_assert(!redeem, "canary: P2SH section reachable");
    __CPROVER_assert(!tap, "canary: tapscript session reachable");
}
