// h_condstack.h -- ConditionStack (debugger/see.h) refines the conceptual vector<bool> of nested IF/ELSE states.
// Abstract model: the vector is  P ++ T  where P is an arbitrary prefix summarised by (its length, the index of its first
// false or "none") and T is an explicit tail of up to 3 booleans.  Every operation only touches the top, so one step
// from every such state is an inductive refinement proof for vectors of any length.
#pragma once
struct AbsVec { uint32_t plen; bool pfalse; uint32_t pff; bool t[4]; uint32_t tn; };   // pfalse: P contains a false at index pff < plen
static uint32_t abs_size(const AbsVec& v) { return v.plen + v.tn; }
static bool abs_at(const AbsVec& v, uint32_t i) {            // "no false value at or before i" - what the interpreter observes (at(i) as defined by the class comment)
    if (v.pfalse && v.pff <= i) return false;
    for (uint32_t k = 0; k < 4; ++k) if (k < v.tn && !v.t[k] && v.plen + k <= i) return false;
    return true;
}
static bool abs_all_true(const AbsVec& v) { if (v.pfalse) return false; for (uint32_t k = 0; k < 4; ++k) if (k < v.tn && !v.t[k]) return false; return true; }
// build the concrete object that represents an abstract vector, through the public interface only
static void cs_build(ConditionStack& c, const AbsVec& v) {
    // P: plen entries with the first false at pff (the values after the first false are unobservable)
    // we cannot push 2^31 entries one by one symbolically; instead havoc the object and constrain it through its observers
    __CPROVER_havoc_object(&c);
    __CPROVER_assume(c.size() == v.plen);
    __CPROVER_assume(c.all_true() == !v.pfalse);
    if (v.pfalse) { __CPROVER_assume(!c.at(v.pff)); __CPROVER_assume(v.pff == 0 || c.at(v.pff - 1)); }
    for (uint32_t k = 0; k < 4; ++k) if (k < v.tn) c.push_back(v.t[k]);
}
static bool cs_matches(const ConditionStack& c, const AbsVec& v, uint32_t idx) {   // idx: universally quantified witness
    return c.size() == abs_size(v) && c.empty() == (abs_size(v) == 0) && c.all_true() == abs_all_true(v) && (idx >= abs_size(v) || c.at(idx) == abs_at(v, idx));
}
extern "C" void h_condstack(void) {
    AbsVec v; __CPROVER_havoc_object(&v);
    __CPROVER_assume(v.plen <= 2000000000u && v.tn <= 3 && (!v.pfalse || v.pff < v.plen));
    ConditionStack c; cs_build(c, v);
    uint32_t idx = nondet_uint();
    __CPROVER_assert(cs_matches(c, v, idx), "spec: the representation observes like the vector it stands for (size, empty, all_true, at)");
    unsigned int op = nondet_uint() % 3u; bool f = nondet_bool();
    AbsVec w = v;
    if (op == 0) { w.t[w.tn] = f; w.tn = w.tn + 1; c.push_back(f); }
    else if (op == 1) { __CPROVER_assume(abs_size(v) > 0 && v.tn > 0); w.tn = w.tn - 1; c.pop_back(); }
    else { __CPROVER_assume(abs_size(v) > 0 && v.tn > 0); w.t[w.tn - 1] = !w.t[w.tn - 1]; c.toggle_top(); }
    uint32_t idx2 = nondet_uint();
    // toggling a value ABOVE an earlier false is unobservable: at(i) is "no false at or before i"
    __CPROVER_assert(cs_matches(c, w, idx2), "spec: push_back / pop_back / toggle_top act on the representation exactly as on the vector (one step from every state: inductive)");
    __CPROVER_assert(op != 2, "canary: toggle reachable");
    __CPROVER_assert(!(v.pfalse && op == 1), "canary: pop above an earlier false reachable");
}
