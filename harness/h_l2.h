// h_l2.h -- contracts of the debugger session layer (L2).  requires = assume on a symbolic mid-session state,
// ensures = assert, frame = equality with a snapshot.  The interpreter step is the contract stub of l2_step_stub.h.
#pragma once

struct L2Snap {
    verif_stack stack, altstack; ConditionStack vfExec;
    const unsigned char* pc; const unsigned char* pend; const unsigned char* cs; int nOpCount; int curr_op_seq; uint32_t opcode_pos;
    uint32_t codesep_pos; int64_t weight; bool done; bool is_p2sh; size_t script_n; size_t succ_n;
    size_t h_stack, h_alt, h_pc, h_ops, h_vf, h_cs, h_ed, h_pos;
    unsigned int flags; SigVersion sv; bool operational;
};
static bool l2_stack_eq(const verif_stack& a, const verif_stack& b) {
    if (a.base != b.base || a.n != b.n) return false;
    for (size_t i = 0; i < VERIF_STACK_W; ++i) if (i < a.n && !(a.w[i] == b.w[i])) return false;
    return true;
}
static bool l2_cs_eq(const ConditionStack& a, const ConditionStack& b, size_t idx) {   // idx: universally quantified witness
    return a.size() == b.size() && a.all_true() == b.all_true() && a.at(idx) == b.at(idx);
}
static void l2_snap(const InterpreterEnv& e, L2Snap& s) {
    s.stack = e.stack; s.altstack = e.altstack; s.vfExec = e.vfExec; s.pc = e.pc; s.pend = e.pend; s.cs = e.pbegincodehash; s.nOpCount = e.nOpCount;
    s.curr_op_seq = e.curr_op_seq; s.opcode_pos = e.opcode_pos; s.codesep_pos = e.execdata.m_codeseparator_pos; s.weight = e.execdata.m_validation_weight_left;
    s.done = e.done; s.is_p2sh = e.is_p2sh; s.script_n = e.script.n; s.succ_n = e.successor_script.n;
    s.h_stack = e.stack_history.cnt; s.h_alt = e.altstack_history.cnt; s.h_pc = e.pc_history.cnt; s.h_ops = e.nOpCount_history.cnt;
    s.h_vf = e.vfExec_history.cnt; s.h_cs = e.pbegincodehash_history.cnt; s.h_ed = e.execdata_history.cnt; s.h_pos = e.opcode_pos_history.cnt;
    s.flags = e.flags; s.sv = e.sigversion; s.operational = e.operational;
}
// a symbolic mid-session environment: constructed by the real constructor, then every session field is made arbitrary
// within the representation invariant Inv (histories of equal length; pointers inside the script; ConditionStack invariant)
#define L2_ENV(env, st, scr, chk, err) \
    verif_stack st; CScript scr; BaseSignatureChecker chk; ScriptError err; \
    __CPROVER_havoc_object(&st); __CPROVER_assume(st.n <= VERIF_STACK_W && st.base <= 1000000000UL); \
    for (size_t i_ = 0; i_ < VERIF_STACK_W; ++i_) __CPROVER_assume(st.w[i_].n <= VERIF_ITEM_CAP); \
    __CPROVER_havoc_object(&scr); __CPROVER_assume(scr.n <= VERIF_SCRIPT_CAP); \
    unsigned int l2_flags = nondet_uint(); unsigned int l2_sv = nondet_uint(); \
    InterpreterEnv env(st, scr, l2_flags, chk, (SigVersion)l2_sv, &err); \
    l2_arbitrary(env);

static void l2_arbitrary(InterpreterEnv& env) {
    __CPROVER_assume(env.sigversion == SigVersion::BASE || env.sigversion == SigVersion::WITNESS_V0 || env.sigversion == SigVersion::TAPSCRIPT);
    { verif_stack s; __CPROVER_havoc_object(&s); __CPROVER_assume(s.n <= VERIF_STACK_W && s.base <= 1000000000UL); for (size_t i = 0; i < VERIF_STACK_W; ++i) __CPROVER_assume(s.w[i].n <= VERIF_ITEM_CAP); env.altstack = s; }
    { verif_stack s; __CPROVER_havoc_object(&s); __CPROVER_assume(s.n <= VERIF_STACK_W && s.base <= 1000000000UL); for (size_t i = 0; i < VERIF_STACK_W; ++i) __CPROVER_assume(s.w[i].n <= VERIF_ITEM_CAP); env.p2shstack = s; }
    { ConditionStack c; __CPROVER_havoc_object(&c); __CPROVER_assume(c.size() <= 2000000000UL && (c.all_true() || (c.size() >= 1 && !c.at(c.size() - 1)))); env.vfExec = c; }
    { CScript s2; __CPROVER_havoc_object(&s2); __CPROVER_assume(s2.n <= VERIF_SCRIPT_CAP); env.successor_script = s2; }
    { ScriptExecutionData ed; __CPROVER_havoc_object(&ed); env.execdata = ed; }
    env.nOpCount = nondet_int(); __CPROVER_assume(env.nOpCount >= 0 && env.nOpCount <= 201);
    env.curr_op_seq = nondet_int(); __CPROVER_assume(env.curr_op_seq >= 0 && env.curr_op_seq <= 1000000);
    env.opcode_pos = nondet_uint(); __CPROVER_assume(env.opcode_pos <= 1000000);
    env.is_p2sh = nondet_bool(); env.done = nondet_bool(); env.operational = true; env.tce = 0;
    size_t pco = nondet_size(), cso = nondet_size();
    __CPROVER_assume(pco <= env.script.n && cso <= pco);
    env.pc = env.script.begin() + pco; env.pbegincodehash = env.script.begin() + cso; env.pend = env.script.end();
    // histories: equal logical length, at most the newest entry has storage; a stored pc entry lies inside the script
    size_t h = nondet_size(); __CPROVER_assume(h <= 1000000);
    size_t kn = nondet_size(); __CPROVER_assume(kn <= 1 && kn <= h);
    env.stack_history.cnt = h; env.altstack_history.cnt = h; env.pc_history.cnt = h; env.nOpCount_history.cnt = h;
    env.vfExec_history.cnt = h; env.pbegincodehash_history.cnt = h; env.execdata_history.cnt = h; env.opcode_pos_history.cnt = h;
    env.stack_history.known = kn; env.altstack_history.known = kn; env.pc_history.known = kn; env.nOpCount_history.known = kn;
    env.vfExec_history.known = kn; env.pbegincodehash_history.known = kn; env.execdata_history.known = kn; env.opcode_pos_history.known = kn;
    { verif_stack s; __CPROVER_havoc_object(&s); __CPROVER_assume(s.n <= VERIF_STACK_W && s.base <= 1000000000UL); for (size_t i = 0; i < VERIF_STACK_W; ++i) __CPROVER_assume(s.w[i].n <= VERIF_ITEM_CAP); env.stack_history.newest = s; }
    { verif_stack s; __CPROVER_havoc_object(&s); __CPROVER_assume(s.n <= VERIF_STACK_W && s.base <= 1000000000UL); for (size_t i = 0; i < VERIF_STACK_W; ++i) __CPROVER_assume(s.w[i].n <= VERIF_ITEM_CAP); env.altstack_history.newest = s; }
    { ConditionStack c; __CPROVER_havoc_object(&c); __CPROVER_assume(c.size() <= 2000000000UL && (c.all_true() || (c.size() >= 1 && !c.at(c.size() - 1)))); env.vfExec_history.newest = c; }
    { size_t o = nondet_size(); __CPROVER_assume(o <= env.script.n); env.pc_history.newest = env.script.begin() + o; }
    { size_t o = nondet_size(); __CPROVER_assume(o <= env.script.n); env.pbegincodehash_history.newest = env.script.begin() + o; }
    env.nOpCount_history.newest = nondet_int(); env.opcode_pos_history.newest = nondet_uint();
    { ScriptExecutionData ed; __CPROVER_havoc_object(&ed); env.execdata_history.newest = ed; }
    verif_thrown = 0; g_l1_calls = 0; g_tce_iter_calls = 0; g_tce_deleted = 0;
}
static bool l2_hist_aligned(const InterpreterEnv& e, size_t h) {
    return e.stack_history.cnt == h && e.altstack_history.cnt == h && e.pc_history.cnt == h && e.nOpCount_history.cnt == h &&
           e.vfExec_history.cnt == h && e.pbegincodehash_history.cnt == h && e.execdata_history.cnt == h && e.opcode_pos_history.cnt == h;
}

// ---- C04: a successful operation step followed by a rewind restores the COMPLETE execution state
extern "C" void h_l2_rewind_roundtrip(void) {
    L2_ENV(env, st, scr, chk, err)
    __CPROVER_assume(env.pc < env.pend && !env.done);
    L2Snap s0; l2_snap(env, s0); size_t idx = nondet_size();
    bool ok = StepScript(env);
    __CPROVER_assert(!(ok && !verif_thrown), "canary: a successful operation step is reachable");
    if (!ok || verif_thrown) return;
    __CPROVER_assert(g_l1_calls == 1, "step: an operation step executes exactly one interpreter operation");
    __CPROVER_assert(l2_hist_aligned(env, s0.h_stack + 1), "inv: every history grows by exactly one entry on a successful operation step");
    __CPROVER_assert(env.curr_op_seq == s0.curr_op_seq + 1 && env.opcode_pos == s0.opcode_pos + 1, "step: position marker and opcode position advance by one");
    __CPROVER_assert(l2_stack_eq(env.stack, g_l1_last_stack) && l2_stack_eq(env.altstack, g_l1_last_alt) && env.vfExec.size() == g_l1_last_cs_size && env.vfExec.all_true() == g_l1_last_cs_alltrue && env.nOpCount == g_l1_last_opcount && env.execdata.m_validation_weight_left == g_l1_last_weight,
                     "step: the state shown after a debugger step is exactly the state the interpreter operation left (stacks, nesting, op count, budget)");
    bool r = RewindScript(env);
    __CPROVER_assert(r, "ensures: a rewind after a successful step is accepted");
    __CPROVER_assert(l2_stack_eq(env.stack, s0.stack), "ensures: rewind restores the main stack");
    __CPROVER_assert(l2_stack_eq(env.altstack, s0.altstack), "ensures: rewind restores the alt stack");
    __CPROVER_assert(l2_cs_eq(env.vfExec, s0.vfExec, idx), "ensures: rewind restores the conditional nesting state");
    __CPROVER_assert(env.pc == s0.pc && env.pend == s0.pend, "ensures: rewind restores the position");
    __CPROVER_assert(env.nOpCount == s0.nOpCount, "ensures: rewind restores the operation count");
    __CPROVER_assert(env.pbegincodehash == s0.cs && env.execdata.m_codeseparator_pos == s0.codesep_pos && env.opcode_pos == s0.opcode_pos, "ensures: rewind restores the code-separator bookkeeping");
    __CPROVER_assert(env.execdata.m_validation_weight_left == s0.weight, "ensures: rewind restores the signature budget");
    __CPROVER_assert(env.curr_op_seq == s0.curr_op_seq, "ensures: rewind restores the position marker");
    __CPROVER_assert(env.done == s0.done && env.is_p2sh == s0.is_p2sh && env.script.n == s0.script_n && env.successor_script.n == s0.succ_n && env.flags == s0.flags && env.sigversion == s0.sv, "frame: phase, script and flags unchanged by step+rewind");
    __CPROVER_assert(l2_hist_aligned(env, s0.h_stack), "inv: histories are back to their previous equal length");
}
// ---- C04: a rewind that cannot be performed is refused and changes nothing
extern "C" void h_l2_rewind_refused(void) {
    L2_ENV(env, st, scr, chk, err)
    bool empty = nondet_bool();
    if (empty) { __CPROVER_assume(env.stack_history.cnt == 0); }
    else { __CPROVER_assume(env.pc == env.script.begin()); }
    L2Snap s0; l2_snap(env, s0); size_t idx = nondet_size();
    Instance inst; inst.env = &env;
    bool r = empty ? RewindScript(env) : inst.rewind();
    __CPROVER_assert(!r, "ensures: rewind with no history / at the start of the script is refused");
    __CPROVER_assert(l2_stack_eq(env.stack, s0.stack) && l2_stack_eq(env.altstack, s0.altstack) && l2_cs_eq(env.vfExec, s0.vfExec, idx) && env.pc == s0.pc && env.nOpCount == s0.nOpCount &&
                     env.pbegincodehash == s0.cs && env.execdata.m_codeseparator_pos == s0.codesep_pos && env.execdata.m_validation_weight_left == s0.weight && env.opcode_pos == s0.opcode_pos,
                     "frame: a refused rewind leaves the execution state unchanged");
    __CPROVER_assert(env.curr_op_seq == s0.curr_op_seq && env.done == s0.done, "frame: a refused rewind leaves the position marker and the finished flag unchanged");
    __CPROVER_assert(l2_hist_aligned(env, s0.h_stack), "frame: a refused rewind leaves the histories unchanged");
    __CPROVER_assert(!empty, "canary: refusal because of empty history reachable");
    __CPROVER_assert(empty, "canary: refusal at the start of the script reachable");
}
// ---- C04 / C12: a failed operation step leaves the histories as they were (no stale snapshot)
extern "C" void h_l2_step_failed(void) {
    L2_ENV(env, st, scr, chk, err)
    __CPROVER_assume(env.pc < env.pend && !env.done);
    L2Snap s0; l2_snap(env, s0);
    bool ok = StepScript(env);
    __CPROVER_assert(ok || verif_thrown, "canary: a step that fails with a script error is reachable");
    if (ok || verif_thrown) return;
    __CPROVER_assert(l2_hist_aligned(env, s0.h_stack), "inv: a failed step leaves every history at its previous length");
    __CPROVER_assert(env.curr_op_seq == s0.curr_op_seq && env.opcode_pos == s0.opcode_pos && env.done == s0.done, "step: a failed step does not move the position marker");
}
// ---- C01/C03/C10/C12: end-of-script handling (phase machine) against the order prescribed by script validation
extern "C" void h_l2_end_of_script(void) {
    L2_ENV(env, st, scr, chk, err)
    __CPROVER_assume(env.pc == env.pend && !env.done);
    L2Snap s0; l2_snap(env, s0); size_t idx = nondet_size();
    const bool p2sh_phase = env.is_p2sh; const bool has_succ = env.successor_script.n > 0;
    const bool stack_empty = env.stack.size() == 0;
    __CPROVER_assume(env.stack.n > 0 || env.stack.base == 0);     // the top item, if any, has storage
    bool top_true = false; if (env.stack.n > 0) top_true = CastToBool(env.stack.sel(env.stack.n - 1));
    const bool pattern = env.script.n == 23 && env.script.s.a[0] == 0xa9 && env.script.s.a[1] == 0x14 && env.script.s.a[22] == 0x87;
    __CPROVER_assume(env.p2shstack.n > 0 || env.p2shstack.base == 0);
    // session invariant (depends on the executed script, assumed here): a P2SH scriptPubKey (HASH160 <h> EQUAL) that ran to its
    // end consumed one item, so the scriptSig result saved for the redeem script is not empty
    __CPROVER_assume(!env.is_p2sh || env.p2shstack.size() > 0);
    verif_stack redeem_stack = env.p2shstack; CScript succ0 = env.successor_script;
    bool ok = StepScript(env);
    __CPROVER_assert(g_l1_calls == 0 && !verif_thrown, "step: no interpreter operation is executed past the end of a script");
    if (p2sh_phase) {
        if (stack_empty || !top_true) { __CPROVER_assert(!ok && err == SCRIPT_ERR_EVAL_FALSE, "step: P2SH: empty or false result of the scriptPubKey fails with EVAL_FALSE"); return; }
        if (!pattern) { __CPROVER_assert(!ok && err == SCRIPT_ERR_BAD_OPCODE, "step: P2SH phase on a script that is not the P2SH pattern fails"); return; }
        __CPROVER_assert(redeem_stack.size() > 0, "assert() precondition: the saved scriptSig stack is not empty");
        __CPROVER_assert(ok, "step: P2SH: switching to the redeem script succeeds");
        verif_stack expect = redeem_stack; verif_bytes redeem = expect.back(); expect.pop_back();
        __CPROVER_assert(l2_stack_eq(env.stack, expect), "step: P2SH: the stack is the scriptSig result without the serialized redeem script");
        __CPROVER_assert(env.script.n == redeem.n, "step: P2SH: the redeem script is the popped item");
        for (size_t i = 0; i < VERIF_ITEM_CAP; ++i) if (i < redeem.n && i < VERIF_SCRIPT_CAP) __CPROVER_assert(env.script.s.a[i] == redeem.s.a[i], "step: P2SH: the redeem script bytes are the popped item");
        __CPROVER_assert(env.pc == env.script.begin() && env.pbegincodehash == env.script.begin() && env.pend == env.script.end(), "step: the new script is executed from its first byte");
        __CPROVER_assert(env.nOpCount == 0 && env.opcode_pos == 0 && !env.is_p2sh && !env.done && env.curr_op_seq == s0.curr_op_seq + 1, "step: op count and opcode position restart, the marker advances by one");
        return;
    }
    if (has_succ) {
        __CPROVER_assert(ok, "step: switching from the scriptSig to the scriptPubKey succeeds");
        __CPROVER_assert(env.script.n == succ0.n && env.successor_script.n == 0, "step: the scriptPubKey becomes the executing script");
        __CPROVER_assert(env.pc == env.script.begin() && env.pbegincodehash == env.script.begin() && env.pend == env.script.end(), "step: the new script is executed from its first byte");
        const bool pat2 = succ0.n == 23 && succ0.s.a[0] == 0xa9 && succ0.s.a[1] == 0x14 && succ0.s.a[22] == 0x87;
        __CPROVER_assert(env.is_p2sh == (((s0.flags & SCRIPT_VERIFY_P2SH) != 0) && pat2), "step: P2SH evaluation is armed exactly when the flag is set and the scriptPubKey has the P2SH pattern");
        __CPROVER_assert(!env.is_p2sh || l2_stack_eq(env.p2shstack, s0.stack), "step: the scriptSig result is saved for the redeem script");
        __CPROVER_assert(l2_stack_eq(env.stack, s0.stack) && env.nOpCount == 0 && env.opcode_pos == 0 && !env.done && env.curr_op_seq == s0.curr_op_seq + 1, "step: stack kept, op count restarts, marker advances by one");
        return;
    }
    __CPROVER_assert(env.done, "step: after the last operation the session is finished");
    __CPROVER_assert(ok == env.vfExec.empty(), "step: the script ends successfully exactly when no conditional is open");
    __CPROVER_assert(ok ? err == SCRIPT_ERR_OK : err == SCRIPT_ERR_UNBALANCED_CONDITIONAL, "step: an open conditional at the end is the UNBALANCED_CONDITIONAL error");
    __CPROVER_assert(env.curr_op_seq == s0.curr_op_seq && l2_stack_eq(env.stack, s0.stack) && l2_hist_aligned(env, s0.h_stack), "frame: finishing changes neither the stack nor the marker nor the histories");
    __CPROVER_assert(!ok, "canary: successful end of script reachable");
    __CPROVER_assert(ok, "canary: unbalanced conditional at end reachable");
}
// ---- C10 (script size at session construction) and the initial session state
extern "C" void h_l2_ctor(void) {
    verif_stack st; CScript scr; BaseSignatureChecker chk; ScriptError err;
    __CPROVER_havoc_object(&st); __CPROVER_assume(st.n <= VERIF_STACK_W && st.base <= 1000000000UL);
    for (size_t i = 0; i < VERIF_STACK_W; ++i) __CPROVER_assume(st.w[i].n <= VERIF_ITEM_CAP);
    __CPROVER_havoc_object(&scr);
    // script length 0..20000, modelled by LENGTH beyond the stored prefix (the constructor reads bytes 0, 1 and 22 only when the length is 23)
    __CPROVER_assume(scr.n <= 20000);
    unsigned int flags = nondet_uint(); SigVersion sv = (SigVersion)nondet_uint();
    __CPROVER_assume(sv == SigVersion::BASE || sv == SigVersion::WITNESS_V0 || sv == SigVersion::TAPSCRIPT);
    InterpreterEnv env(st, scr, flags, chk, sv, &err);
    const bool too_long = scr.n > 10000 && (sv == SigVersion::BASE || sv == SigVersion::WITNESS_V0);
    __CPROVER_assert(env.operational == !too_long, "spec: a session is refused exactly for legacy/segwit-v0 scripts longer than 10,000 bytes (tapscript is exempt)");
    __CPROVER_assert(env.operational || err == SCRIPT_ERR_SCRIPT_SIZE, "spec: the refusal reports the script-size error");
    __CPROVER_assert(!(scr.n == 10000 && env.operational), "canary: a 10,000-byte script is accepted");
    __CPROVER_assert(!(scr.n == 10001 && !env.operational), "canary: a 10,001-byte legacy script is refused");
    __CPROVER_assert(!(scr.n == 10001 && sv == SigVersion::TAPSCRIPT && env.operational), "canary: a 10,001-byte tapscript is accepted");
    if (!env.operational) return;
    __CPROVER_assert(env.nOpCount == 0 && env.curr_op_seq == 0 && env.opcode_pos == 0 && env.pc == env.script.begin() && env.pend == env.script.end() && env.pbegincodehash == env.script.begin(), "spec: a fresh session starts at the first byte with zero counts");
    __CPROVER_assert(env.done == (scr.n == 0), "spec: an empty script is finished at once");
    __CPROVER_assert(env.ScriptExecutionEnvironment::fRequireMinimal == ((flags & SCRIPT_VERIFY_MINIMALDATA) != 0) && env.flags == flags && env.sigversion == sv, "spec: flags and version are taken as given");
    __CPROVER_assert(l2_hist_aligned(env, 0) && env.vfExec.empty() && env.altstack.size() == 0, "spec: a fresh session has no history, no open conditional and an empty alt stack");
    const bool pattern = scr.n == 23 && scr.s.a[0] == 0xa9 && scr.s.a[1] == 0x14 && scr.s.a[22] == 0x87;
    __CPROVER_assert(env.is_p2sh == (((flags & SCRIPT_VERIFY_P2SH) != 0) && pattern), "spec: P2SH evaluation is armed exactly when the flag is set and the script has the P2SH pattern");
}
// ---- session step stub (contract of StepScript(InterpreterEnv&)) used to close the run-to-completion loops
static bool verif_session_step_contract(InterpreterEnv& env) {
    // any outcome: success, script error, or an interpreter exception; may finish the session; state arbitrary
    env.done = nondet_bool(); env.curr_op_seq = nondet_int();
    if (nondet_bool()) { verif_thrown = 1 + (int)(nondet_uint() % 3u); return false; }
    return nondet_bool();
}
// ---- C08: ContinueScript never lets an exception escape, and returns true only for a finished session
extern "C" void h_l2_continue(void) {
    L2_ENV(env, st, scr, chk, err)
    bool ok = ContinueScript(env);
    __CPROVER_assert(verif_thrown == 0, "ensures: no interpreter exception escapes the run-to-completion loop (it is a script failure, not a program failure)");
    __CPROVER_assert(!ok || env.done, "ensures: run-to-completion reports success only for a finished session");
    __CPROVER_assert(!ok, "canary: successful completion reachable");
    __CPROVER_assert(ok, "canary: failing completion reachable");
}
// ---- C01/C08: Instance::step converts exceptions into a failed step; never steps a finished session
extern "C" void h_l2_instance_step(void) {
    L2_ENV(env, st, scr, chk, err)
    Instance inst; inst.env = &env;
    size_t steps = nondet_size(); __CPROVER_assume(steps >= 1 && steps <= 1000);
    const bool done0 = env.done;
    bool ok = inst.step(steps);
    __CPROVER_assert(verif_thrown == 0, "ensures: Instance::step lets no exception escape");
    __CPROVER_assert(!done0 || !ok, "ensures: stepping a finished session is refused");
    __CPROVER_assert(!ok, "canary: successful step reachable");
}
// ---- C16: the execution loop of exec (Instance::eval)
extern "C" void h_l2_eval(void) {
    L2_ENV(env, st, scr, chk, err)
    CScript local; __CPROVER_havoc_object(&local); __CPROVER_assume(local.n <= VERIF_SCRIPT_CAP);
    L2Snap s0; l2_snap(env, s0);
    size_t cs_off0 = (size_t)(env.pbegincodehash - env.script.begin());
    bool ok = verif_eval_loop(&env, local);
    __CPROVER_assert(verif_thrown == 0, "ensures: exec lets no interpreter exception escape");
    __CPROVER_assert(env.pc == s0.pc && env.pend == s0.pend && env.script.n == s0.script_n && env.curr_op_seq == s0.curr_op_seq && env.done == s0.done && env.is_p2sh == s0.is_p2sh && env.opcode_pos == s0.opcode_pos,
                     "frame: exec leaves the script position, the remaining script, the marker and the phase untouched");
    __CPROVER_assert(l2_hist_aligned(env, s0.h_stack), "frame: exec leaves the rewind histories untouched");
    __CPROVER_assert(__CPROVER_same_object(env.pbegincodehash, env.script.begin()) && env.pbegincodehash == s0.cs, "inv: after exec the signed-code start still points into the debugged script (not into exec's temporary script)");
    __CPROVER_assert(!ok || g_l1_calls <= (int)local.n, "ensures: exec executes each operation of its list at most once");
    if (g_l1_calls > 0) {
        __CPROVER_assert(l2_stack_eq(env.stack, g_l1_last_stack) && l2_stack_eq(env.altstack, g_l1_last_alt) && env.vfExec.size() == g_l1_last_cs_size && env.vfExec.all_true() == g_l1_last_cs_alltrue,
                         "ensures: the stacks and conditional state exec leaves are exactly those its last operation left");
        __CPROVER_assert(env.nOpCount == g_l1_last_opcount && env.execdata.m_validation_weight_left == g_l1_last_weight, "ensures: operations run through exec count towards the operation limit and the signature budget like script operations");
    } else {
        __CPROVER_assert(l2_stack_eq(env.stack, s0.stack) && l2_stack_eq(env.altstack, s0.altstack) && env.nOpCount == s0.nOpCount, "ensures: an empty exec list changes nothing");
    }
    __CPROVER_assert(!(ok && local.n > 0), "canary: successful exec of a non-empty list reachable");
    __CPROVER_assert(ok || local.n == 0, "canary: failing exec reachable");
}

// ---- C05 / C12: the commitment phase of a tapscript session (TaprootCommitmentEnv::Iterate is its contract, proved in C05)
extern "C" void h_l2_commitment(void) {
    L2_ENV(env, st, scr, chk, err)
    TaprootCommitmentEnv tce; uint256 leaf; __CPROVER_havoc_object(&leaf); __CPROVER_havoc_object(&tce); tce.m_tapleaf_hash = &leaf;
    env.tce = &tce; g_tce_next_state = (int)(nondet_uint() % 4u);
    L2Snap s0; l2_snap(env, s0); uint256 leaf0 = leaf; uint256 old_hash = env.execdata.m_tapleaf_hash;
    bool ok = StepScript(env);
    __CPROVER_assert(g_tce_iter_calls == 1 && g_l1_calls == 0 && !verif_thrown, "step: a commitment step performs exactly one commitment iteration and no script operation");
    __CPROVER_assert(env.pc == s0.pc && l2_stack_eq(env.stack, s0.stack) && l2_hist_aligned(env, s0.h_stack) && env.nOpCount == s0.nOpCount && env.opcode_pos == s0.opcode_pos, "frame: a commitment step leaves script position, stack and histories untouched");
    if (g_tce_next_state == (int)TaprootCommitmentEnv::State::Failed) {
        __CPROVER_assert(!ok && env.curr_op_seq == s0.curr_op_seq && env.tce == &tce, "step: a failed commitment fails the step and moves nothing");
        return;
    }
    __CPROVER_assert(ok && env.curr_op_seq == s0.curr_op_seq + 1, "step: a commitment step succeeds and advances the marker by one");
    if (g_tce_next_state == (int)TaprootCommitmentEnv::State::Done) {
        bool same = true; for (int i = 0; i < 32; ++i) if (env.execdata.m_tapleaf_hash.m_data[i] != leaf0.m_data[i]) same = false;
        __CPROVER_assert(same && env.execdata.m_tapleaf_hash_init, "step: when the commitment is done the leaf hash used for signature hashing is the TapLeaf hash computed at construction");
        __CPROVER_assert(env.tce == 0 && g_tce_deleted == 1, "step: the commitment environment is released exactly once and script execution starts");
    } else {
        __CPROVER_assert(env.tce == &tce && g_tce_deleted == 0, "step: the commitment continues");
    }
    __CPROVER_assert(g_tce_next_state != (int)TaprootCommitmentEnv::State::Done, "canary: commitment completion reachable");
}
// ---- C03 / C08 / C12: the session Instance::setup_environment creates (second half of the function)
extern "C" void h_l2_setup(void) {
    verif_stack st; CScript scr, succ; BaseSignatureChecker chk; ScriptError err;
    __CPROVER_havoc_object(&st); __CPROVER_assume(st.n <= VERIF_STACK_W && st.base <= 1000000000UL);
    for (size_t i = 0; i < VERIF_STACK_W; ++i) __CPROVER_assume(st.w[i].n <= VERIF_ITEM_CAP);
    __CPROVER_havoc_object(&scr); __CPROVER_assume(scr.n <= VERIF_SCRIPT_CAP);
    __CPROVER_havoc_object(&succ); __CPROVER_assume(succ.n <= VERIF_SCRIPT_CAP);
    unsigned int flags = nondet_uint(); SigVersion sv = (SigVersion)nondet_uint();
    __CPROVER_assume(sv == SigVersion::BASE || sv == SigVersion::WITNESS_V0 || sv == SigVersion::TAPSCRIPT || sv == SigVersion::TAPROOT);
    verif_bytes_map pvm; verif_bytes_set pvs; __CPROVER_havoc_object(&pvm); __CPROVER_havoc_object(&pvs);
    ScriptExecutionData ed; __CPROVER_havoc_object(&ed);
    TaprootCommitmentEnv tce_obj; TaprootCommitmentEnv* tce = 0; if (nondet_bool()) tce = &tce_obj;
    InterpreterEnv* env = 0;
    const int64_t weight0 = ed.m_validation_weight_left; const bool winit0 = ed.m_validation_weight_left_init; const bool annex0 = ed.m_annex_present;
    bool r = verif_setup_tail(st, scr, flags, &chk, sv, err, succ, pvm, pvs, ed, tce, env);
    __CPROVER_assert(env != 0 && r == env->operational, "spec: a session is created and the result says whether it is operational");
    __CPROVER_assert(!r, "canary: an operational session is reachable");
    __CPROVER_assert(!(r && scr.n == 0 && succ.n != 0), "canary: empty first script with a script to follow is reachable");
    if (!r) return;
    __CPROVER_assert(env->done == (scr.n == 0 && succ.n == 0), "spec: the new session is finished at once only when there is nothing to execute - an empty first script with a script to follow (empty scriptSig, then the scriptPubKey) is NOT finished");
    bool same = env->successor_script.n == succ.n; for (size_t i = 0; i < VERIF_SCRIPT_CAP; ++i) if (i < succ.n && env->successor_script.s.a[i] != succ.s.a[i]) same = false;
    __CPROVER_assert(same, "spec: the script to follow (scriptPubKey after scriptSig) is handed to the session unchanged");
    __CPROVER_assert(env->tce == tce, "spec: the commitment checker prepared for a tapscript spend is handed to the session");
    __CPROVER_assert(env->execdata.m_codeseparator_pos == 0xFFFFFFFFU && env->execdata.m_codeseparator_pos_init, "spec: no code separator has been executed yet (position 0xFFFFFFFF)");
    __CPROVER_assert(env->execdata.m_validation_weight_left == weight0 && env->execdata.m_validation_weight_left_init == winit0 && env->execdata.m_annex_present == annex0, "spec: signature budget and annex bookkeeping prepared for the input reach the session unchanged");
    __CPROVER_assert(env->flags == flags && env->sigversion == sv && env->pc == env->script.begin() && env->curr_op_seq == 0, "spec: flags and signature version as configured; the session starts at the first operation with marker 0");
}
