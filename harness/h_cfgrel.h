// h_cfgrel.h -- the argument buffers of Instance::configure_tx_txin (property C15: "no ... mismatched deallocation", no leak of the
// copies): every remaining witness item is copied once (strdup), all copies are handed to parse_stack_args in order, and each is
// released exactly once with the deallocation function that matches its allocation (free for strdup).
#pragma once
extern "C" void h_cfg_buffers(void) {
    verif_stack ws; __CPROVER_havoc_object(&ws); ws.base = 0; __CPROVER_assume(ws.n <= VERIF_STACK_W);
    for (size_t i = 0; i < VERIF_STACK_W; ++i) __CPROVER_assume(ws.w[i].n <= VERIF_ITEM_CAP);
    size_t k = nondet_size(); __CPROVER_assume(k <= ws.n);
    g_alloc_n = 0; for (int i = 0; i < VERIF_ALLOC_N; ++i) g_alloc_state[i] = 0; g_wrong_dealloc = 0; g_double_release = 0; g_foreign_release = 0; g_psa_calls = 0; g_psa_n = 0;
    verif_cfg_buffers(ws, k);
    __CPROVER_assert((size_t)g_alloc_n == k && g_psa_calls == 1 && g_psa_n == k, "spec: each remaining witness item is copied once and all copies are handed on together");
    bool all_released = true; for (int i = 0; i < VERIF_ALLOC_N; ++i) if ((size_t)i < k && g_alloc_state[i] != 2) all_released = false;
    __CPROVER_assert(all_released && g_double_release == 0 && g_foreign_release == 0, "spec: every copy is released exactly once, and nothing else is");
    __CPROVER_assert(g_wrong_dealloc == 0, "spec: the copies come from strdup (malloc) and are released with free(), not with delete");
    __CPROVER_assert(k != 3, "canary: three argument buffers reachable");
}
