// h_step.h -- contract harness for ONE call of the real StepScript(ScriptExecutionEnvironment&, pc, local_script).
// CBMC rejects __CPROVER_requires/ensures in C++ translation units, so the step contract is written in the form the
// contract instrumentation expands to:  requires = __CPROVER_assume on the symbolic pre-state,
// ensures = __CPROVER_assert on the post-state, frame = equality with the snapshot for everything the rules leave alone.
//
// configured per query with -D:
//   H_OPSEL(op)   predicate selecting the opcode byte(s) of this query (op symbolic within it)
//   H_N           number of stack items with storage (the top H_N items);   H_BASE0: no hidden items below them
//   H_AN          number of alt-stack items with storage;                   H_ABASE0: no hidden items below them
//   H_EXEC        1: executed branch only, 0: unexecuted branch only, absent: both
#pragma once
typedef verif_bytes sbytes; typedef verif_stack sstack;
#ifdef H_SIG
#define SPEC_WITH_SIG
#endif
#include "spec_step.h"

#ifndef H_N
#define H_N 0
#endif
#ifndef H_AN
#define H_AN 0
#endif

static bool h_items_eq(const verif_stack& a, const verif_stack& b) {
    if (a.base != b.base || a.n != b.n) return false;
#ifdef H_SKIP_TOP_VALUE
    // "shape" query: everything but the bytes of the result item (its value is decided by the companion *_value query)
    for (size_t i = 0; i < VERIF_STACK_W; ++i) if (i + 1 < a.n && !(a.w[i] == b.w[i])) return false;
#else
    for (size_t i = 0; i < VERIF_STACK_W; ++i) if (i < a.n && !(a.w[i] == b.w[i])) return false;
#endif
    return true;
}

extern "C" void h_step(void) {
    verif_stack st; CScript scr; BaseSignatureChecker chk; ScriptError err;
    // ---------------- symbolic pre-state (requires) ----------------
    __CPROVER_havoc_object(&st);
    st.n = H_N;
#ifdef H_BASE0
    st.base = 0;
#else
    __CPROVER_assume(st.base <= 1000000000UL);
#endif
    for (size_t i = 0; i < VERIF_STACK_W; ++i) __CPROVER_assume(st.w[i].n <= VERIF_ITEM_CAP);
#ifdef H_ITEM_MAXLEN
    for (size_t i = 0; i < VERIF_STACK_W; ++i) __CPROVER_assume(st.w[i].n <= H_ITEM_MAXLEN);   // bounded operand width (stated in evidence)
#endif
    __CPROVER_havoc_object(&scr);
    __CPROVER_assume(scr.n <= VERIF_SCRIPT_CAP);
    unsigned int flags = nondet_uint();
    ScriptExecutionEnvironment env(st, scr, flags, chk);
    {
        verif_stack alt; __CPROVER_havoc_object(&alt); alt.n = H_AN;
#ifdef H_ABASE0
        alt.base = 0;
#else
        __CPROVER_assume(alt.base <= 1000000000UL);
#endif
        for (size_t i = 0; i < VERIF_STACK_W; ++i) __CPROVER_assume(alt.w[i].n <= VERIF_ITEM_CAP);
        env.altstack = alt;
        ConditionStack cs; __CPROVER_havoc_object(&cs); env.vfExec = cs;
        int oc = nondet_int(); env.nOpCount = oc;
        SigVersion sv; env.sigversion = sv;
        bool ad = nondet_bool(); env.allow_disabled_opcodes = ad;
        uint32_t op_pos = nondet_uint(); env.opcode_pos = op_pos;
        ScriptExecutionData ed; __CPROVER_havoc_object(&ed); env.execdata = ed;
    }
    env.serror = &err;
#ifdef H_ALLOW_DISABLED
    env.allow_disabled_opcodes = (H_ALLOW_DISABLED != 0);
#endif
    // well-formedness of the environment (type invariants of the session state)
#ifdef H_SV_TAPROOT
    env.sigversion = SigVersion::TAPROOT;    // btcdeb's key-path preamble: <program> OP_CHECKSIG under the TAPROOT signature version
#else
    __CPROVER_assume(env.sigversion == SigVersion::BASE || env.sigversion == SigVersion::WITNESS_V0 || env.sigversion == SigVersion::TAPSCRIPT);
#endif
#ifdef H_SV
    env.sigversion = (SigVersion)H_SV;      // (assigned, not assumed: an assumed equality is not constant-propagated)
#endif
#ifdef H_SV_PRE
    __CPROVER_assume(env.sigversion == SigVersion::BASE || env.sigversion == SigVersion::WITNESS_V0);
#endif
    __CPROVER_assume(env.nOpCount >= 0 && env.nOpCount <= 201);
    __CPROVER_assume(env.vfExec.size() <= 2000000000UL);
    __CPROVER_assume(env.vfExec.all_true() || (env.vfExec.size() >= 1 && !env.vfExec.at(env.vfExec.size() - 1)));   // representation invariant: a false, if any, lies inside the stack
    uint32_t cs_size0 = (uint32_t)env.vfExec.size();
    // first-false position read through the public interface: at(i) is false from the first false on
    uint32_t cs_ff0 = nondet_uint();
    __CPROVER_assume(env.vfExec.all_true() ? cs_ff0 == SPEC_NO_FALSE : (cs_ff0 < cs_size0 && !env.vfExec.at(cs_ff0) && (cs_ff0 == 0 || env.vfExec.at(cs_ff0 - 1))));
#if defined(H_EXEC) && H_EXEC == 1
    __CPROVER_assume(env.vfExec.all_true());
#elif defined(H_EXEC) && H_EXEC == 0
    __CPROVER_assume(!env.vfExec.all_true());
#endif
    size_t pc_off = nondet_size(); size_t cs_off = nondet_size();
#ifdef H_LOCAL_SCRIPT
    // exec: the operation is decoded from a separate, temporary script; the debugged script and its position are a frame
    CScript local; __CPROVER_havoc_object(&local); __CPROVER_assume(local.n <= VERIF_SCRIPT_CAP);
    __CPROVER_assume(pc_off <= local.n && cs_off <= scr.n);
    CScript::const_iterator pc = local.begin() + pc_off;
    env.pbegincodehash = env.script.begin() + cs_off;
#define H_SCRIPT_OBJ local
#define H_LOCAL_ARG (&local)
#else
    __CPROVER_assume(pc_off <= scr.n && cs_off <= pc_off);
    CScript::const_iterator pc = env.script.begin() + pc_off;
    env.pbegincodehash = env.script.begin() + cs_off;
#define H_SCRIPT_OBJ env.script
#define H_LOCAL_ARG 0
#endif
    // ---------------- the decoded operation (contract of GetScriptOp) ----------------
    unsigned int opbyte = nondet_uint();
    __CPROVER_assume(opbyte <= 0xff && (H_OPSEL(opbyte)));
    g_getop_ok = nondet_bool();
    g_getop_opcode = (opcodetype)opbyte;
    __CPROVER_havoc_object(&g_getop_push);
    // push payload: lengths 0..VERIF_ITEM_CAP have storage; 521..10000 are admitted for the size check only
#ifdef H_PUSHLEN_LO
    // boundary query: push lengths around the 520-byte limit, modelled by LENGTH only (no byte beyond the storage is read
    // by the step: the size check precedes every use, and CheckMinimalPush reads data[0] only for 1-byte pushes)
    __CPROVER_assume(g_getop_push.n >= H_PUSHLEN_LO && g_getop_push.n <= H_PUSHLEN_HI);
#else
    __CPROVER_assume(g_getop_push.n <= VERIF_ITEM_CAP || (g_getop_push.n > 520 && g_getop_push.n <= 10000));
#endif
    __CPROVER_assume(opbyte <= SOP_PUSHDATA4 || g_getop_push.n == 0);
#ifndef H_PUSHLEN_LO
    __CPROVER_assume(opbyte >= SOP_PUSHDATA1 || g_getop_push.n == opbyte);
#endif
    g_getop_adv = nondet_size();
    __CPROVER_assume(g_getop_adv <= H_SCRIPT_OBJ.n - pc_off);
    g_getop_calls = 0;
    g_locktime_ok = nondet_bool(); g_sequence_ok = nondet_bool(); g_locktime_calls = 0; g_sequence_calls = 0;
    g_hash_calls = 0; g_hash_algo = 0;
#ifndef H_SIG
    for (int i = 0; i < 32; ++i) g_hash_out[i] = nondet_uchar();
#endif
#ifdef H_CAT_LIMIT
    // storage bound of the model: the concatenation must fit into one modelled element
    __CPROVER_assume(H_N < 2 || st.w[H_N >= 2 ? H_N - 1 : 0].n + st.w[H_N >= 2 ? H_N - 2 : 0].n <= VERIF_ITEM_CAP);
#endif
#ifdef H_SIG
    // oracles of the signature opcodes: arbitrary verdicts, fixed for this step
    SpecSigOracles orc; SpecSigUse use;
    for (int i = 0; i < VERIF_ORACLE_N; ++i) { g_ecdsa_ok[i] = nondet_bool(); orc.ecdsa_ok[i] = g_ecdsa_ok[i]; int f = nondet_int(); __CPROVER_assume(f >= 0 && f <= 3); g_fad_result[i] = f; orc.fad_result[i] = f; }
    g_ecdsa_calls = 0; g_fad_calls = 0; g_schnorr_calls = 0; g_lows_calls = 0;
    g_schnorr_ok = nondet_bool(); g_schnorr_err = nondet_int(); __CPROVER_assume(g_schnorr_err >= (int)SCRIPT_ERR_SCHNORR_SIG_SIZE && g_schnorr_err <= (int)SCRIPT_ERR_SCHNORR_SIG);
    g_lows_ok = nondet_bool(); orc.schnorr_ok = g_schnorr_ok; orc.schnorr_err = g_schnorr_err; orc.lows_ok = g_lows_ok;
    g_mock_on = nondet_bool(); __CPROVER_havoc_object(&g_mock_sig); __CPROVER_havoc_object(&g_mock_key); __CPROVER_assume(g_mock_sig.n <= VERIF_ITEM_CAP && g_mock_key.n <= VERIF_ITEM_CAP);
#ifdef H_MOCK
    g_mock_on = (H_MOCK != 0);
#endif
    orc.mock_on = g_mock_on; orc.mock_sig = g_mock_sig; orc.mock_key = g_mock_key;
    env.execdata.m_validation_weight_left_init = true;
    use.ecdsa_calls = 0; use.schnorr_calls = 0; use.fad_calls = 0; use.weight = env.execdata.m_validation_weight_left;
    __CPROVER_assume(use.weight >= -1000 && use.weight <= 4000000);
    g_spec_orc = &orc; g_spec_use = &use;
#ifdef H_MS_KEYS
    // CHECKMULTISIG with a concrete number of keys and signatures (case split); layout from the top: nkeys, keys, nsigs, sigs, dummy
    st.w[H_N - 1] = spec_enc(H_MS_KEYS); st.w[H_N - 2 - H_MS_KEYS] = spec_enc(H_MS_SIGS);
#endif
#endif
    // ---------------- what the rules prescribe ----------------
    SpecCtx c; SpecState s;
    c.flags = flags; c.allow_disabled = env.allow_disabled_opcodes; c.getop_ok = g_getop_ok; c.opcode = opbyte; c.push = g_getop_push;
    c.sv = env.sigversion == SigVersion::BASE ? SSV_BASE : (env.sigversion == SigVersion::WITNESS_V0 ? SSV_WITNESS_V0 : (env.sigversion == SigVersion::TAPROOT ? SSV_TAPROOT : SSV_TAPSCRIPT));
    c.locktime_ok = g_locktime_ok; c.sequence_ok = g_sequence_ok; c.opcode_pos = env.opcode_pos;
#ifndef H_SIG
    for (int i = 0; i < 32; ++i) c.hash_out[i] = g_hash_out[i];
#endif
    s.stack = st; s.alt = env.altstack; s.cs_size = cs_size0; s.cs_first_false = cs_ff0; s.nOpCount = env.nOpCount;
    s.codesep_moved = false; s.codesep_pos = env.execdata.m_codeseparator_pos;
    s.locktime_calls = 0; s.sequence_calls = 0; s.locktime_arg = 0; s.sequence_arg = 0; s.hash_calls = 0; s.hash_algo = 0;
    SpecOut o = spec_step(c, s);
    verif_expect_throw = o.kind == SO_EXC ? o.exc : VT_NONE;
#ifndef H_NO_OK
    __CPROVER_assert(o.kind != SO_OK, "canary: a successful step is admitted by the precondition");
#endif
#ifdef H_CANARY_ERR
    __CPROVER_assert(o.kind != SO_ERR, "canary: a failing step is admitted by the precondition");
#endif
#ifdef H_CANARY_EXC
    __CPROVER_assert(o.kind != SO_EXC, "canary: an exception-raising operand is admitted by the precondition");
#endif
#if defined(H_LIM_OPS) || defined(H_LIM_GROW) || defined(H_PUSHLEN_LO)
    {   // boundary witnesses (property C10): both sides of every limit this query can reach are reachable; the ensures below
        // then pin the implementation to the prescribed verdict at exactly these points
        const bool counted = (c.sv == SSV_BASE || c.sv == SSV_WITNESS_V0) && opbyte > SOP_16;
        const size_t total0 = st.size() + env.altstack.size();
#ifdef H_LIM_OPS
        __CPROVER_assert(!(o.kind == SO_OK && counted && env.nOpCount == 200), "canary: the 201st counted operation of a legacy/v0 script succeeds");
        __CPROVER_assert(!(o.kind == SO_ERR && o.err == (int)SCRIPT_ERR_OP_COUNT && env.nOpCount == 201), "canary: the 202nd counted operation fails with the op-count error");
        __CPROVER_assert(!(o.kind == SO_OK && c.sv == SSV_TAPSCRIPT && env.nOpCount == 201 && opbyte > SOP_16), "canary: tapscript is exempt from the operation count");
#endif
#ifdef H_LIM_GROW
        __CPROVER_assert(!(o.kind == SO_OK && s.stack.size() + s.alt.size() == 1000 && total0 == 1000 - H_LIM_GROW), "canary: growing to exactly 1000 combined items succeeds");
        __CPROVER_assert(!(o.kind == SO_ERR && o.err == (int)SCRIPT_ERR_STACK_SIZE && total0 == 1001 - H_LIM_GROW), "canary: growing to 1001 combined items fails with the stack-size error");
#endif
#ifdef H_PUSHLEN_LO
        __CPROVER_assert(!(o.kind == SO_OK && c.push.size() == 520), "canary: a 520-byte push succeeds");
        __CPROVER_assert(!(o.kind == SO_ERR && o.err == (int)SCRIPT_ERR_PUSH_SIZE && c.push.size() == 521), "canary: a 521-byte push fails with the push-size error");
#endif
    }
#endif
    // snapshot for the frame
    const unsigned int flags0 = env.flags; const SigVersion sv0 = env.sigversion; const bool rm0 = env.fRequireMinimal; const bool ad0 = env.allow_disabled_opcodes;
    const uint32_t oppos0 = env.opcode_pos; const int64_t vw0 = env.execdata.m_validation_weight_left; const CScript::const_iterator pend0 = env.pend;
    const CScript::const_iterator pc0 = pc; const CScript::const_iterator cs0 = env.pbegincodehash; const size_t scrn0 = env.script.n;
    // ---------------- the call ----------------
    bool ok = StepScript(env, pc, H_LOCAL_ARG);
    // ---------------- ensures ----------------
    __CPROVER_assert(o.kind != SO_EXC, "step: returns normally only where the rules prescribe no exception failure");
    if (o.kind == SO_ERR) {
        __CPROVER_assert(!ok, "step: fails where the rules prescribe a failure");
        __CPROVER_assert(ok || o.err == SPEC_ANY_ERROR || err == (ScriptError)o.err, "step: reports exactly the error the rules prescribe");
        return;
    }
    __CPROVER_assert(ok, "step: succeeds where the rules prescribe success");
    __CPROVER_assert(h_items_eq(st, s.stack), "step: main stack after the operation is the one the rules prescribe (depth, contents, order)");
    __CPROVER_assert(h_items_eq(env.altstack, s.alt), "step: alt stack after the operation is the one the rules prescribe");
    __CPROVER_assert(env.vfExec.size() == s.cs_size && env.vfExec.all_true() == (s.cs_first_false == SPEC_NO_FALSE), "step: conditional nesting depth and executing/skipping state are the ones the rules prescribe");
    __CPROVER_assert(s.cs_first_false == SPEC_NO_FALSE || (!env.vfExec.at(s.cs_first_false) && (s.cs_first_false == 0 || env.vfExec.at(s.cs_first_false - 1))), "step: position of the first false conditional is the one the rules prescribe");
    __CPROVER_assert(env.nOpCount == s.nOpCount, "step: operation count after the operation is the one the rules prescribe");
    __CPROVER_assert(pc == pc0 + g_getop_adv && g_getop_calls == 1, "step: exactly one operation is decoded and the position advances past it");
    __CPROVER_assert(s.codesep_moved ? (env.pbegincodehash == pc && env.execdata.m_codeseparator_pos == s.codesep_pos) : (env.pbegincodehash == cs0 && env.execdata.m_codeseparator_pos == s.codesep_pos), "step: signed-code start and code-separator position change exactly on an executed OP_CODESEPARATOR");
    __CPROVER_assert(g_locktime_calls == s.locktime_calls && g_sequence_calls == s.sequence_calls && (s.locktime_calls == 0 || g_locktime_arg == s.locktime_arg) && (s.sequence_calls == 0 || g_sequence_arg == s.sequence_arg), "step: lock-time oracle consulted exactly as prescribed, with the decoded operand");
    __CPROVER_assert(g_hash_calls == s.hash_calls && (s.hash_calls == 0 || (g_hash_algo == s.hash_algo && g_hash_in == s.hash_in)), "step: hash oracle applied exactly once, to the popped item, with the named algorithm");
#ifdef H_SIG
    __CPROVER_assert(env.execdata.m_validation_weight_left == use.weight, "step: the tapscript signature budget is charged exactly 50 per non-empty signature checked");
    __CPROVER_assert(g_schnorr_calls == use.schnorr_calls && (use.schnorr_calls == 0 || (g_schnorr_sig == use.schnorr_sig && g_schnorr_key == use.schnorr_key)), "step: Schnorr verification is requested exactly when prescribed, for the given signature and key");
    __CPROVER_assert(g_ecdsa_calls >= use.ecdsa_calls, "step: every prescribed ECDSA verification is requested");
    for (int i = 0; i < VERIF_ORACLE_N; ++i) if (i < use.ecdsa_calls) __CPROVER_assert(g_ecdsa_sig[i] == use.ecdsa_sig[i] && g_ecdsa_key[i] == use.ecdsa_key[i], "step: signatures are matched to keys in order (i-th verification is for the prescribed signature/key pair)");
    __CPROVER_assert(env.flags == flags0 && env.sigversion == sv0 && env.fRequireMinimal == rm0 && env.allow_disabled_opcodes == ad0 && env.opcode_pos == oppos0 && env.pend == pend0 && env.script.n == scrn0, "frame: flags, script version, options and script bounds are unchanged by a signature operation");
#else
    __CPROVER_assert(env.flags == flags0 && env.sigversion == sv0 && env.fRequireMinimal == rm0 && env.allow_disabled_opcodes == ad0 && env.opcode_pos == oppos0 && env.execdata.m_validation_weight_left == vw0 && env.pend == pend0 && env.script.n == scrn0, "frame: flags, script version, options, script bounds and signature budget are unchanged by a non-signature operation");
#endif
}
