// spec_sig.h -- the script-level rules of the signature opcodes (BIP 66, 62, 146, 147, 141/143 pubkey type, 342), with the
// cryptographic verdicts as ORACLES: whether an ECDSA / Schnorr signature verifies, whether S is low, how often the
// signature push occurs in the script code (FindAndDelete).  Written from the BIPs; included by spec_step.h.
#pragma once
struct SpecSigOracles {
    bool ecdsa_ok[VERIF_ORACLE_N];          // verdict of the i-th ECDSA verification requested
    bool schnorr_ok; int schnorr_err;
    bool lows_ok;
    int fad_result[VERIF_ORACLE_N];         // occurrences removed by the i-th FindAndDelete
    bool mock_on; sbytes mock_sig, mock_key;   // --pretend-valid: one listed pair S:P
};
struct SpecSigUse { int ecdsa_calls, schnorr_calls, fad_calls; sbytes ecdsa_sig[VERIF_ORACLE_N], ecdsa_key[VERIF_ORACLE_N]; sbytes schnorr_sig, schnorr_key; int64_t weight; };

// BIP66: strict DER with one trailing hash-type byte
static inline bool spec_valid_der(const sbytes& sig) {
    size_t n = sig.size();
    if (n < 9) return false;
    if (n > 73) return false;
    if (sig[0] != 0x30) return false;
    if (sig[1] != n - 3) return false;
    size_t lenR = sig[3];
    if (5 + lenR >= n) return false;
    size_t lenS = sig[5 + lenR];
    if (lenR + lenS + 7 != n) return false;
    if (sig[2] != 0x02) return false;
    if (lenR == 0) return false;
    if (sig[4] & 0x80) return false;
    if (lenR > 1 && sig[4] == 0x00 && !(sig[5] & 0x80)) return false;
    if (sig[lenR + 4] != 0x02) return false;
    if (lenS == 0) return false;
    if (sig[lenR + 6] & 0x80) return false;
    if (lenS > 1 && sig[lenR + 6] == 0x00 && !(sig[lenR + 7] & 0x80)) return false;
    return true;
}
static inline bool spec_defined_hashtype(const sbytes& sig) {
    if (sig.size() == 0) return false;
    unsigned int t = sig[sig.size() - 1] & 0x7f;     // without ANYONECANPAY
    return t >= 1 && t <= 3;
}
static inline bool spec_key_compressed(const sbytes& k) { return k.size() == 33 && (k[0] == 0x02 || k[0] == 0x03); }
static inline bool spec_key_comp_or_uncomp(const sbytes& k) {
    if (k.size() < 33) return false;
    if (k[0] == 0x04) return k.size() == 65;
    if (k[0] == 0x02 || k[0] == 0x03) return k.size() == 33;
    return false;
}
// 0 = acceptable, otherwise the script error selected by the active flags
static inline int spec_sig_encoding_error(const sbytes& sig, unsigned int flags, const SpecSigOracles& orc) {
    if (sig.size() == 0) return 0;
    if ((flags & (SCRIPT_VERIFY_DERSIG | SCRIPT_VERIFY_LOW_S | SCRIPT_VERIFY_STRICTENC)) != 0 && !spec_valid_der(sig)) return (int)SCRIPT_ERR_SIG_DER;
    if ((flags & SCRIPT_VERIFY_LOW_S) != 0 && !orc.lows_ok) return (int)SCRIPT_ERR_SIG_HIGH_S;
    if ((flags & SCRIPT_VERIFY_STRICTENC) != 0 && !spec_defined_hashtype(sig)) return (int)SCRIPT_ERR_SIG_HASHTYPE;
    return 0;
}
static inline int spec_key_encoding_error(const sbytes& key, unsigned int flags, int sv) {
    if ((flags & SCRIPT_VERIFY_STRICTENC) != 0 && !spec_key_comp_or_uncomp(key)) return (int)SCRIPT_ERR_PUBKEYTYPE;
    if ((flags & SCRIPT_VERIFY_WITNESS_PUBKEYTYPE) != 0 && sv == SSV_WITNESS_V0 && !spec_key_compressed(key)) return (int)SCRIPT_ERR_WITNESS_PUBKEYTYPE;
    return 0;
}
// one signature check as done by CHECKSIG / CHECKSIGVERIFY / CHECKSIGADD.  returns 0 and sets `success`, or a script error
// (SPEC_ANY_ERROR where no specific code is prescribed)
static inline int spec_eval_checksig(const SpecCtx& c, const SpecSigOracles& orc, SpecSigUse& use, const sbytes& sig, const sbytes& key, bool& success) {
    // --pretend-valid: a listed key accepts exactly its listed signature, before any encoding or context rule
    if (orc.mock_on && key == orc.mock_key) {
        if (sig == orc.mock_sig) { success = true; return 0; }
        // a different signature for a listed key gets no special treatment: the ordinary rules below decide
    }
    if (c.sv == SSV_TAPROOT) {
        use.schnorr_sig = sig; use.schnorr_key = key; use.schnorr_calls = use.schnorr_calls + 1;
        success = orc.schnorr_ok;
        if (!success) return SPEC_ANY_ERROR;
        return 0;
    }
    if (c.sv == SSV_BASE || c.sv == SSV_WITNESS_V0) {
        if (c.sv == SSV_BASE) {
            int found = orc.fad_result[use.fad_calls]; use.fad_calls = use.fad_calls + 1;
            if (found > 0 && (c.flags & SCRIPT_VERIFY_CONST_SCRIPTCODE)) return (int)SCRIPT_ERR_SIG_FINDANDDELETE;
        }
        int e = spec_sig_encoding_error(sig, c.flags, orc); if (e) return e;
        e = spec_key_encoding_error(key, c.flags, c.sv); if (e) return e;
        use.ecdsa_sig[use.ecdsa_calls] = sig; use.ecdsa_key[use.ecdsa_calls] = key;
        success = orc.ecdsa_ok[use.ecdsa_calls]; use.ecdsa_calls = use.ecdsa_calls + 1;
        if (!success && (c.flags & SCRIPT_VERIFY_NULLFAIL) && sig.size() != 0) return (int)SCRIPT_ERR_SIG_NULLFAIL;
        return 0;
    }
    // tapscript (BIP342)
    success = sig.size() != 0;
    if (success) {
        use.weight = use.weight - 50;
        if (use.weight < 0) return (int)SCRIPT_ERR_TAPSCRIPT_VALIDATION_WEIGHT;
    }
    if (key.size() == 0) return (int)SCRIPT_ERR_PUBKEYTYPE;
    if (key.size() == 32) {
        if (success) {
            use.schnorr_sig = sig; use.schnorr_key = key; use.schnorr_calls = use.schnorr_calls + 1;
            if (!orc.schnorr_ok) return orc.schnorr_err;
        }
    } else {
        if ((c.flags & SCRIPT_VERIFY_DISCOURAGE_UPGRADABLE_PUBKEYTYPE) != 0) return (int)SCRIPT_ERR_DISCOURAGE_UPGRADABLE_PUBKEYTYPE;
    }
    return 0;
}
#define SG_ERR(e) do { out.kind = SO_ERR; out.err = (int)(e); return out; } while (0)
static inline SpecOut spec_sig_op(const SpecCtx& c, SpecState& st, const SpecSigOracles& orc, SpecSigUse& use) {
    SpecOut out; out.kind = SO_OK; out.err = 0; out.exc = 0;
    sstack& S = st.stack; const unsigned int op = c.opcode;
    const bool minimal = (c.flags & SCRIPT_VERIFY_MINIMALDATA) != 0;
    if (op == SOP_CHECKSIG || op == SOP_CHECKSIGVERIFY) {
        if (S.size() < 2) SG_ERR(SCRIPT_ERR_INVALID_STACK_OPERATION);
        sbytes sig = S_TOP(2), key = S_TOP(1); bool ok = true;
        int e = spec_eval_checksig(c, orc, use, sig, key, ok); if (e) SG_ERR(e);
        S.pop_back(); S.pop_back();
        if (op == SOP_CHECKSIGVERIFY) { if (!ok) SG_ERR(SCRIPT_ERR_CHECKSIGVERIFY); } else S.push_back(spec_bool(ok));
    } else if (op == SOP_CHECKSIGADD) {
        if (c.sv == SSV_BASE || c.sv == SSV_WITNESS_V0) SG_ERR(SCRIPT_ERR_BAD_OPCODE);
        if (S.size() < 3) SG_ERR(SCRIPT_ERR_INVALID_STACK_OPERATION);
        sbytes sig = S_TOP(3), key = S_TOP(1);
        S_NUM(n, S_TOP(2), 4);
        bool ok = true;
        int e = spec_eval_checksig(c, orc, use, sig, key, ok); if (e) SG_ERR(e);
        S.pop_back(); S.pop_back(); S.pop_back();
        if (ok) S.push_back(spec_enc(n + 1)); else S.push_back(spec_enc(n));
    } else {   // CHECKMULTISIG / CHECKMULTISIGVERIFY  ([dummy] [sig ...] nsigs [key ...] nkeys -- bool)
        if (c.sv == SSV_TAPSCRIPT) SG_ERR(SCRIPT_ERR_TAPSCRIPT_CHECKMULTISIG);
        if (S.size() < 1) SG_ERR(SCRIPT_ERR_INVALID_STACK_OPERATION);
        S_NUM(nk, S_TOP(1), 4);
        if (nk < 0) SG_ERR(SCRIPT_ERR_PUBKEY_COUNT);
        if (nk > 20) SG_ERR(SCRIPT_ERR_PUBKEY_COUNT);
        st.nOpCount = st.nOpCount + (int)nk;
        if (st.nOpCount > SPEC_MAX_OPS) SG_ERR(SCRIPT_ERR_OP_COUNT);
        size_t pos_nsigs = (size_t)nk + 2;                          // depth of the signature count
        if (S.size() < pos_nsigs) SG_ERR(SCRIPT_ERR_INVALID_STACK_OPERATION);
        S_NUM(ns, S_TOP(pos_nsigs), 4);
        if (ns < 0) SG_ERR(SCRIPT_ERR_SIG_COUNT);
        if (ns > nk) SG_ERR(SCRIPT_ERR_SIG_COUNT);
        size_t total = (size_t)nk + (size_t)ns + 2;                 // items consumed besides the dummy
        if (S.size() < total) SG_ERR(SCRIPT_ERR_INVALID_STACK_OPERATION);
        if (c.sv == SSV_BASE) {
            for (int64_t k = 0; k < ns; ++k) { int found = orc.fad_result[use.fad_calls]; use.fad_calls = use.fad_calls + 1; if (found > 0 && (c.flags & SCRIPT_VERIFY_CONST_SCRIPTCODE)) SG_ERR(SCRIPT_ERR_SIG_FINDANDDELETE); }
        }
        // in-order matching: signature i (depth pos_nsigs+1+i) against the keys from the top down (depth 2 ..)
        bool ok = true; int64_t sigs_left = ns, keys_left = nk; size_t isig = pos_nsigs + 1, ikey = 2;
        for (int round = 0; round < 21; ++round) {
            if (!(ok && sigs_left > 0)) break;
            const sbytes& sig = S_TOP(isig); const sbytes& key = S_TOP(ikey); bool good;
            if (orc.mock_on && key == orc.mock_key) { good = (sig == orc.mock_sig); }
            else {
                int e = spec_sig_encoding_error(sig, c.flags, orc); if (e) SG_ERR(e);
                e = spec_key_encoding_error(key, c.flags, c.sv); if (e) SG_ERR(e);
                use.ecdsa_sig[use.ecdsa_calls] = sig; use.ecdsa_key[use.ecdsa_calls] = key;
                good = orc.ecdsa_ok[use.ecdsa_calls]; use.ecdsa_calls = use.ecdsa_calls + 1;
            }
            if (good) { isig = isig + 1; sigs_left = sigs_left - 1; }
            ikey = ikey + 1; keys_left = keys_left - 1;
            if (sigs_left > keys_left) ok = false;
        }
        // NULLFAIL: on failure every signature must be empty
        if (!ok && (c.flags & SCRIPT_VERIFY_NULLFAIL)) {
            for (int64_t k = 0; k < ns; ++k) if (S_TOP(pos_nsigs + 1 + (size_t)k).size() != 0) SG_ERR(SCRIPT_ERR_SIG_NULLFAIL);
        }
        for (size_t k = 0; k < total; ++k) S.pop_back();
        if (S.size() < 1) SG_ERR(SCRIPT_ERR_INVALID_STACK_OPERATION);
        if ((c.flags & SCRIPT_VERIFY_NULLDUMMY) && S_TOP(1).size() != 0) SG_ERR(SCRIPT_ERR_SIG_NULLDUMMY);
        S.pop_back();
        if (op == SOP_CHECKMULTISIGVERIFY) { if (!ok) SG_ERR(SCRIPT_ERR_CHECKMULTISIGVERIFY); } else S.push_back(spec_bool(ok));
    }
    return out;
}
