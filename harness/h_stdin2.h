// h_stdin2.h -- contract of the stdin script reader of btcdeb's main() (property C08: the script given on stdin):
// the script text is the line without its terminator - nothing else is removed, and nothing is read when there is no input.
#pragma once
extern "C" void h_stdin_script2(void) {
    size_t n = nondet_size(); __CPROVER_assume(n <= 18);
    unsigned int term = nondet_uint() % 3u;                   // 0: no terminator (last line without newline), 1: LF, 2: CRLF
    for (size_t i = 0; i < 24; ++i) g_line[i] = 0;
    for (size_t i = 0; i < 18; ++i) if (i < n) { char c = (char)nondet_uchar(); __CPROVER_assume(c != 0 && c != '\n'); g_line[i] = c; }
    __CPROVER_assume(n == 0 || (g_line[n - 1] != '\r'));       // the content itself does not end in CR
    size_t m = n; if (term == 2) g_line[m++] = '\r'; if (term >= 1) g_line[m++] = '\n';
    g_eof = nondet_bool(); g_dup_calls = 0; g_freed_dup[0] = false; g_freed_dup[1] = false; g_free_calls = 0;
    char* r = verif_stdin_script();
    __CPROVER_assert((r == g_dupbuf && !g_freed_dup[0]) || (r == g_dupbuf2 && !g_freed_dup[1]), "spec: a script string is produced (a live copy, not a released buffer)");
    if (g_eof) { __CPROVER_assert(r[0] == 0, "spec: without input the script is empty (no uninitialised bytes are parsed)"); return; }
    bool same = true; for (size_t i = 0; i < 18; ++i) if (i < n && r[i] != g_line[i]) same = false;
    __CPROVER_assert(same && r[n] == 0, "spec: the script is the input line without its LF / CRLF terminator, and nothing else is removed");
    __CPROVER_assert(term != 0, "canary: input without a trailing newline reachable");
    __CPROVER_assert(term != 2, "canary: CRLF-terminated input reachable");
}
