// h_argjoin.h -- contract of Value::parse_args(const std::vector<const char*>) (property C07: bracketed sub-scripts; command-line form):
// for every list of up to VERIF_ARG_N arguments of up to VERIF_ARG_LEN characters over { letter, '[', ']' }:
//   * an argument that starts with '[' and opens more brackets than it closes begins a bracket expression; the following arguments are
//     appended, separated by single spaces, until the brackets balance; the joined text - brackets included - is ONE value;
//   * every other non-empty argument is one value of its own, constructed from exactly that argument; empty arguments are skipped;
//   * no argument is used twice.
#pragma once
static bool aj_eq(const std::verif_jstr& a, const std::verif_jstr& b) { if (a.n != b.n) return false; for (size_t i = 0; i < VERIF_JOIN_CAP; ++i) if (i < a.n && a.c[i] != b.c[i]) return false; return true; }
extern "C" void h_argjoin(void) {
    char store[VERIF_ARG_N][VERIF_ARG_LEN + 1]; verif_argvec args; args.n = nondet_size(); __CPROVER_assume(args.n <= VERIF_ARG_N);
    for (size_t k = 0; k < VERIF_ARG_N; ++k) {
        size_t l = nondet_size(); __CPROVER_assume(l <= VERIF_ARG_LEN);
        for (size_t i = 0; i <= VERIF_ARG_LEN; ++i) { store[k][i] = 0; if (i < l) { unsigned char c = nondet_uchar(); __CPROVER_assume(c == 'a' || c == '[' || c == ']'); store[k][i] = (char)c; } }
        args.a[k] = store[k];
    }
    // ---- spec
    std::verif_jstr exp[VERIF_ARG_N + 1]; size_t en = 0; std::verif_jstr pend; bool open = false; int depth = 0;
    for (size_t k = 0; k < VERIF_ARG_N; ++k) if (k < args.n) {
        const char* v = store[k]; size_t l = verif_strlen(v); int d = 0;
        for (size_t i = 0; i < VERIF_ARG_LEN; ++i) if (i < l) { if (v[i] == '[') d = d + 1; if (v[i] == ']') d = d - 1; }
        if (open) { std::verif_jstr sp(" "); pend += sp; std::verif_jstr t(v); pend += t; depth = depth + d; if (depth <= 0) { exp[en] = pend; en = en + 1; open = false; depth = 0; } }
        else if (l > 0) { if (v[0] == '[' && d > 0) { pend = v; open = true; depth = d; } else { std::verif_jstr t(v); exp[en] = t; en = en + 1; } }
    }
    if (open) { exp[en] = pend; en = en + 1; }      // a bracket expression the arguments never close is passed on as it stands (and then diagnosed as a string)
    verif_vallist r = verif_parse_args(args);
    __CPROVER_assert(r.n == en, "spec: one value per argument outside brackets and one per bracket expression (no argument is used twice, none is lost)");
    bool same = r.n == en;
    for (size_t k = 0; k <= VERIF_ARG_N; ++k) if (k < en && k < r.n) { std::verif_jstr got = r.s[k]; if (r.len[k] != 0 && r.len[k] < got.n) { got.n = r.len[k]; got.c[got.n] = 0; } if (!aj_eq(got, exp[k])) same = false; }
    __CPROVER_assert(same, "spec: each value is constructed from exactly its argument, or from the bracket expression joined with single spaces, brackets included");
    __CPROVER_assert(!(en == 1 && args.n == 3), "canary: three arguments forming one bracket expression reachable");
    __CPROVER_assert(args.n != 0, "canary: empty argument list reachable");
}
