// h_enc.h -- contracts of the script assembler's encoding half (property C07): for an already classified token
// (opcode / integer / data), Value::operator>> appends exactly the minimal encoding.
#pragma once
#include "spec_scriptnum.h"
// expected encoding, written from BIP62 rule 3/4 (minimal pushes) and the script-number definition
static size_t spec_put_push(unsigned char* out, const unsigned char* d, size_t L) {
    size_t n = 0;
    if (L == 0) { out[n++] = 0x00; return n; }
    if (L == 1 && d[0] >= 1 && d[0] <= 16) { out[n++] = (unsigned char)(0x50 + d[0]); return n; }
    if (L == 1 && d[0] == 0x81) { out[n++] = 0x4f; return n; }
    if (L <= 75) { out[n++] = (unsigned char)L; }
    else if (L <= 255) { out[n++] = 0x4c; out[n++] = (unsigned char)L; }
    else { out[n++] = 0x4d; out[n++] = (unsigned char)(L & 0xff); out[n++] = (unsigned char)(L >> 8); }
    for (size_t i = 0; i < VERIF_ITEM_CAP; ++i) if (i < L) out[n + i] = d[i];
    return n + L;
}
static bool h_script_is(const CScript& s, size_t pre, const unsigned char* exp, size_t n) {
    if (s.n != pre + n) return false;
    for (size_t i = 0; i < VERIF_ITEM_CAP + 4; ++i) if (i < n && s.s.a[pre + i] != exp[i]) return false;
    return true;
}
// ---- data token: any byte string of length 0..VERIF_ITEM_CAP
extern "C" void h_enc_data(void) {
    Value v; __CPROVER_havoc_object(&v); v.type = Value::T_DATA; __CPROVER_assume(v.data.n <= VERIF_ITEM_CAP);
    CScript s; __CPROVER_havoc_object(&s); size_t pre = s.n; __CPROVER_assume(pre <= 2);
    unsigned char pre0 = s.s.a[0], pre1 = s.s.a[1];
    unsigned char exp[VERIF_ITEM_CAP + 4]; size_t n = spec_put_push(exp, v.data.s.a, v.data.n);
    verif_expect_throw = 0;
    v >> s;
    __CPROVER_assert(h_script_is(s, pre, exp, n), "spec: a data token is appended as the minimal push that places exactly its bytes on the stack");
    __CPROVER_assert((pre < 1 || s.s.a[0] == pre0) && (pre < 2 || s.s.a[1] == pre1), "frame: bytes already in the script are unchanged");
    __CPROVER_assert(v.data.n != 76, "canary: 76-byte data (first OP_PUSHDATA1 length) reachable");
    __CPROVER_assert(!(v.data.n == 2 && v.data.s.a[1] == 0x00), "canary: non-minimal number-like data (trailing zero byte) reachable");
}
// ---- integer token: any int64
extern "C" void h_enc_int(void) {
    Value v; __CPROVER_havoc_object(&v); v.type = Value::T_INT; v.data.n = 0;
    CScript s; __CPROVER_havoc_object(&s); size_t pre = s.n; __CPROVER_assume(pre <= 2);
    int64_t x = v.int64; __CPROVER_assume(x != (-9223372036854775807L - 1));
    verif_expect_throw = 0;
    v >> s;
    size_t n = s.n - pre; const unsigned char* o = s.s.a + pre;
    if (x == 0) { __CPROVER_assert(n == 1 && o[0] == 0x00, "spec: the integer 0 is assembled as OP_0"); }
    else if (x == -1 || (x >= 1 && x <= 16)) { __CPROVER_assert(n == 1 && o[0] == (unsigned char)(0x50 + x), "spec: the integers -1 and 1..16 are assembled as OP_1NEGATE / OP_1..OP_16"); }
    else {
        __CPROVER_assert(n >= 2 && o[0] == n - 1 && o[0] == spec_num_len(x), "spec: any other integer is a direct push of the length of its minimal script-number encoding");
        __CPROVER_assert(n < 2 || (spec_num_minimal(o + 1, n - 1) && spec_num_value(o + 1, n - 1) == x), "spec: ... whose payload is the minimal sign-magnitude encoding of the integer");
    }
    __CPROVER_assert(x != 128, "canary: integer needing a sign byte reachable");
}
// ---- opcode token: one byte
extern "C" void h_enc_opcode(void) {
    Value v; __CPROVER_havoc_object(&v); v.type = Value::T_OPCODE; v.data.n = 0;
    unsigned int b = nondet_uint(); __CPROVER_assume(b <= 0xff); v.opcode = (opcodetype)b;
    CScript s; __CPROVER_havoc_object(&s); size_t pre = s.n; __CPROVER_assume(pre <= 2);
    verif_expect_throw = 0;
    v >> s;
    __CPROVER_assert(s.n == pre + 1 && s.s.a[pre] == (unsigned char)b, "spec: an opcode token is assembled as its single opcode byte");
    __CPROVER_assert(b != 0xba, "canary: OP_CHECKSIGADD reachable");
}
// ---- every push the assembler emits satisfies the minimal-push rule of the interpreter (real CheckMinimalPush on the decoded op)
extern "C" void h_enc_minimal(void) {
    verif_bytes d; __CPROVER_havoc_object(&d); __CPROVER_assume(d.n <= VERIF_ITEM_CAP);
    unsigned char exp[VERIF_ITEM_CAP + 4]; size_t n = spec_put_push(exp, d.s.a, d.n);
    // decode per the script grammar
    unsigned int op = exp[0]; verif_bytes payload;
    if (op >= 1 && op <= 75) payload = verif_bytes(exp + 1, exp + 1 + op);
    else if (op == 0x4c) payload = verif_bytes(exp + 2, exp + 2 + exp[1]);
    else if (op == 0x4d) payload = verif_bytes(exp + 3, exp + 3 + (exp[1] | (exp[2] << 8)));
    if (op <= 0x4e) {
        __CPROVER_assert(payload == d, "lemma: decoding the assembled push yields the given bytes");
        __CPROVER_assert(CheckMinimalPush(payload, (opcodetype)op), "lemma: the assembled push passes the interpreter's minimal-push check");
    } else {
        __CPROVER_assert(d.n == 1 && ((op == 0x4f && d.s.a[0] == 0x81) || (op >= 0x51 && op <= 0x60 && d.s.a[0] == op - 0x50)), "lemma: a one-byte value 1..16 / 0x81 is assembled as the small-integer opcode that pushes exactly that byte");
    }
    __CPROVER_assert(op != 0x4c, "canary: OP_PUSHDATA1 form reachable");
}
// ---- C18: the debugger's integer <-> bytes conversions are exactly the script-number codec
extern "C" void h_value_int(void) {
    Value v; __CPROVER_havoc_object(&v); __CPROVER_assume(v.data.n <= 8);
    bool as_data = nondet_bool();
    if (as_data) {
        v.type = Value::T_DATA;
        verif_expect_throw = v.data.n > 4 ? VT_SCRIPTNUM_OVERFLOW : VT_NONE;   // 4-byte numeric operands; minimality is not required for literals
        int64_t r = v.int_value();
        __CPROVER_assert(v.data.n <= 4, "spec: byte strings longer than four bytes are not numbers (script number overflow)");
        __CPROVER_assert(r == spec_num_value(v.data.s.a, v.data.n), "spec: the integer value of a byte string is the little-endian sign-magnitude value Bitcoin assigns it");
    } else {
        v.type = Value::T_INT; int64_t x = v.int64; __CPROVER_assume(x != (-9223372036854775807L - 1));
        verif_expect_throw = VT_NONE;
        __CPROVER_assert(v.int_value() == x, "spec: the integer value of an integer literal is the integer");
        verif_bytes d = v.data_value();
        __CPROVER_assert(d.n == spec_num_len(x) && spec_num_minimal(d.s.a, d.n) && spec_num_value(d.s.a, d.n) == x, "spec: the bytes of an integer literal are its unique minimal script-number encoding");
        __CPROVER_assert(v.type == Value::T_DATA, "spec: after conversion the value is data");
    }
    __CPROVER_assert(as_data, "canary: integer literal branch reachable");
    __CPROVER_assert(!(as_data && v.data.n == 4), "canary: 4-byte string reachable");
}

// ---- push prefix and total length for data of ANY length up to 70,000 bytes (payload by length only): the 75/76, 255/256
// and 65535/65536 prefix boundaries
extern "C" void h_enc_prefix(void) {
    Value v; __CPROVER_havoc_object(&v); v.type = Value::T_DATA; __CPROVER_assume(v.data.n > 8 && v.data.n <= 70000);
    CScript s; s.n = 0;
    const size_t L = v.data.n;
    verif_expect_throw = 0;
    v >> s;
    if (L <= 75) __CPROVER_assert(s.n == 1 + L && s.s.a[0] == L, "spec: 9..75 bytes: direct push (length byte)");
    else if (L <= 255) __CPROVER_assert(s.n == 2 + L && s.s.a[0] == 0x4c && s.s.a[1] == L, "spec: 76..255 bytes: OP_PUSHDATA1 with a one-byte length");
    else if (L <= 65535) __CPROVER_assert(s.n == 3 + L && s.s.a[0] == 0x4d && s.s.a[1] == (L & 0xff) && s.s.a[2] == (L >> 8), "spec: 256..65535 bytes: OP_PUSHDATA2 with a little-endian two-byte length");
    else __CPROVER_assert(s.n == 5 + L && s.s.a[0] == 0x4e && s.s.a[1] == (L & 0xff) && s.s.a[2] == ((L >> 8) & 0xff) && s.s.a[3] == ((L >> 16) & 0xff) && s.s.a[4] == 0, "spec: longer data: OP_PUSHDATA4 with a little-endian four-byte length");
    __CPROVER_assert(L != 255, "canary: 255-byte data reachable");
    __CPROVER_assert(L != 65536, "canary: 65536-byte data reachable");
}
