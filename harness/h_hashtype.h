// h_hashtype.h -- contract of hashtype_str, the hash-type text in the signing log of CheckECDSASignature (property C15: "no ... use of
// ... uninitialised memory"): for EVERY hash-type byte the text is a function of the byte alone - two evaluations give the same text,
// which fails exactly when the text is read from bytes the function never wrote - its scan ends inside the buffer, and it is the
// names of the base type (ALL / NONE / SINGLE, none for other values) and of ANYONECANPAY separated by one space.
#pragma once
static bool ht_eq(const std::verif_hstr& a, const char* s) { size_t i = 0; for (; i < 60; ++i) { if (s[i] == 0) break; if (i >= a.n || a.c[i] != s[i]) return false; } return a.n == i; }
extern "C" void h_hashtype_str(void) {
    int h = nondet_int(); __CPROVER_assume(h >= 0 && h <= 255);
    std::verif_hstr a = hashtype_str(h);
    std::verif_hstr b = hashtype_str(h);
    bool same = a.n == b.n; for (size_t i = 0; i < VERIF_HT_CAP; ++i) if (i < a.n && i < b.n && a.c[i] != b.c[i]) same = false;
    __CPROVER_assert(same, "spec: the text depends on the hash-type byte only (it is never read from uninitialised memory)");
    const int base = h & 0x1f; const bool acp = (h & 0x80) != 0;
    if (same) {
        if (base == 1) __CPROVER_assert(ht_eq(a, acp ? "SIGHASH_ALL SIGHASH_ANYONECANPAY" : "SIGHASH_ALL"), "spec: base type ALL is named");
        else if (base == 2) __CPROVER_assert(ht_eq(a, acp ? "SIGHASH_NONE SIGHASH_ANYONECANPAY" : "SIGHASH_NONE"), "spec: base type NONE is named");
        else if (base == 3) __CPROVER_assert(ht_eq(a, acp ? "SIGHASH_SINGLE SIGHASH_ANYONECANPAY" : "SIGHASH_SINGLE"), "spec: base type SINGLE is named");
        else __CPROVER_assert(ht_eq(a, acp ? "SIGHASH_ANYONECANPAY" : ""), "spec: an undefined base type contributes no name");
    }
    __CPROVER_assert(!(base == 0 && !acp), "canary: a hash type without any defined part is reachable");
    __CPROVER_assert(base != 3, "canary: SINGLE reachable");
}
