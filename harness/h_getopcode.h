// h_getopcode.h -- contract of the opcode-name table GetOpCode (property C07: every opcode name in both spellings and the
// OP_xNN escape).  The table below is written from the Bitcoin protocol's opcode list (name -> byte), not from /repo.
#pragma once
struct spec_opname { const char* name; unsigned int byte; };
#define H_NAMES 114
static void h_check_name(const char* bare, const char* prefixed, unsigned int byte) {
    __CPROVER_assert((unsigned int)GetOpCode(bare) == byte, "spec: every opcode name without the OP_ prefix resolves to its opcode byte");
    __CPROVER_assert((unsigned int)GetOpCode(prefixed) == byte, "spec: every opcode name with the OP_ prefix resolves to its opcode byte");
}
extern "C" void h_getopcode_names(void) {
#if H_CHUNK == 0
    h_check_name("0", "OP_0", 0x00);
    h_check_name("FALSE", "OP_FALSE", 0x00);
    h_check_name("PUSHDATA1", "OP_PUSHDATA1", 0x4c);
    h_check_name("PUSHDATA2", "OP_PUSHDATA2", 0x4d);
    h_check_name("PUSHDATA4", "OP_PUSHDATA4", 0x4e);
    h_check_name("1NEGATE", "OP_1NEGATE", 0x4f);
    h_check_name("RESERVED", "OP_RESERVED", 0x50);
    h_check_name("1", "OP_1", 0x51);
    h_check_name("TRUE", "OP_TRUE", 0x51);
    h_check_name("2", "OP_2", 0x52);
    h_check_name("3", "OP_3", 0x53);
    h_check_name("4", "OP_4", 0x54);
    h_check_name("5", "OP_5", 0x55);
    h_check_name("6", "OP_6", 0x56);
    h_check_name("7", "OP_7", 0x57);
    h_check_name("8", "OP_8", 0x58);
#endif
#if H_CHUNK == 1
    h_check_name("9", "OP_9", 0x59);
    h_check_name("10", "OP_10", 0x5a);
    h_check_name("11", "OP_11", 0x5b);
    h_check_name("12", "OP_12", 0x5c);
    h_check_name("13", "OP_13", 0x5d);
    h_check_name("14", "OP_14", 0x5e);
    h_check_name("15", "OP_15", 0x5f);
    h_check_name("16", "OP_16", 0x60);
    h_check_name("NOP", "OP_NOP", 0x61);
    h_check_name("VER", "OP_VER", 0x62);
    h_check_name("IF", "OP_IF", 0x63);
    h_check_name("NOTIF", "OP_NOTIF", 0x64);
    h_check_name("VERIF", "OP_VERIF", 0x65);
    h_check_name("VERNOTIF", "OP_VERNOTIF", 0x66);
    h_check_name("ELSE", "OP_ELSE", 0x67);
    h_check_name("ENDIF", "OP_ENDIF", 0x68);
#endif
#if H_CHUNK == 2
    h_check_name("VERIFY", "OP_VERIFY", 0x69);
    h_check_name("RETURN", "OP_RETURN", 0x6a);
    h_check_name("TOALTSTACK", "OP_TOALTSTACK", 0x6b);
    h_check_name("FROMALTSTACK", "OP_FROMALTSTACK", 0x6c);
    h_check_name("2DROP", "OP_2DROP", 0x6d);
    h_check_name("2DUP", "OP_2DUP", 0x6e);
    h_check_name("3DUP", "OP_3DUP", 0x6f);
    h_check_name("2OVER", "OP_2OVER", 0x70);
    h_check_name("2ROT", "OP_2ROT", 0x71);
    h_check_name("2SWAP", "OP_2SWAP", 0x72);
    h_check_name("IFDUP", "OP_IFDUP", 0x73);
    h_check_name("DEPTH", "OP_DEPTH", 0x74);
    h_check_name("DROP", "OP_DROP", 0x75);
    h_check_name("DUP", "OP_DUP", 0x76);
    h_check_name("NIP", "OP_NIP", 0x77);
    h_check_name("OVER", "OP_OVER", 0x78);
#endif
#if H_CHUNK == 3
    h_check_name("PICK", "OP_PICK", 0x79);
    h_check_name("ROLL", "OP_ROLL", 0x7a);
    h_check_name("ROT", "OP_ROT", 0x7b);
    h_check_name("SWAP", "OP_SWAP", 0x7c);
    h_check_name("TUCK", "OP_TUCK", 0x7d);
    h_check_name("CAT", "OP_CAT", 0x7e);
    h_check_name("SUBSTR", "OP_SUBSTR", 0x7f);
    h_check_name("LEFT", "OP_LEFT", 0x80);
    h_check_name("RIGHT", "OP_RIGHT", 0x81);
    h_check_name("SIZE", "OP_SIZE", 0x82);
    h_check_name("INVERT", "OP_INVERT", 0x83);
    h_check_name("AND", "OP_AND", 0x84);
    h_check_name("OR", "OP_OR", 0x85);
    h_check_name("XOR", "OP_XOR", 0x86);
    h_check_name("EQUAL", "OP_EQUAL", 0x87);
    h_check_name("EQUALVERIFY", "OP_EQUALVERIFY", 0x88);
#endif
#if H_CHUNK == 4
    h_check_name("RESERVED1", "OP_RESERVED1", 0x89);
    h_check_name("RESERVED2", "OP_RESERVED2", 0x8a);
    h_check_name("1ADD", "OP_1ADD", 0x8b);
    h_check_name("1SUB", "OP_1SUB", 0x8c);
    h_check_name("2MUL", "OP_2MUL", 0x8d);
    h_check_name("2DIV", "OP_2DIV", 0x8e);
    h_check_name("NEGATE", "OP_NEGATE", 0x8f);
    h_check_name("ABS", "OP_ABS", 0x90);
    h_check_name("NOT", "OP_NOT", 0x91);
    h_check_name("0NOTEQUAL", "OP_0NOTEQUAL", 0x92);
    h_check_name("ADD", "OP_ADD", 0x93);
    h_check_name("SUB", "OP_SUB", 0x94);
    h_check_name("MUL", "OP_MUL", 0x95);
    h_check_name("DIV", "OP_DIV", 0x96);
    h_check_name("MOD", "OP_MOD", 0x97);
    h_check_name("LSHIFT", "OP_LSHIFT", 0x98);
#endif
#if H_CHUNK == 5
    h_check_name("RSHIFT", "OP_RSHIFT", 0x99);
    h_check_name("BOOLAND", "OP_BOOLAND", 0x9a);
    h_check_name("BOOLOR", "OP_BOOLOR", 0x9b);
    h_check_name("NUMEQUAL", "OP_NUMEQUAL", 0x9c);
    h_check_name("NUMEQUALVERIFY", "OP_NUMEQUALVERIFY", 0x9d);
    h_check_name("NUMNOTEQUAL", "OP_NUMNOTEQUAL", 0x9e);
    h_check_name("LESSTHAN", "OP_LESSTHAN", 0x9f);
    h_check_name("GREATERTHAN", "OP_GREATERTHAN", 0xa0);
    h_check_name("LESSTHANOREQUAL", "OP_LESSTHANOREQUAL", 0xa1);
    h_check_name("GREATERTHANOREQUAL", "OP_GREATERTHANOREQUAL", 0xa2);
    h_check_name("MIN", "OP_MIN", 0xa3);
    h_check_name("MAX", "OP_MAX", 0xa4);
    h_check_name("WITHIN", "OP_WITHIN", 0xa5);
    h_check_name("RIPEMD160", "OP_RIPEMD160", 0xa6);
    h_check_name("SHA1", "OP_SHA1", 0xa7);
    h_check_name("SHA256", "OP_SHA256", 0xa8);
#endif
#if H_CHUNK == 6
    h_check_name("HASH160", "OP_HASH160", 0xa9);
    h_check_name("HASH256", "OP_HASH256", 0xaa);
    h_check_name("CODESEPARATOR", "OP_CODESEPARATOR", 0xab);
    h_check_name("CHECKSIG", "OP_CHECKSIG", 0xac);
    h_check_name("CHECKSIGVERIFY", "OP_CHECKSIGVERIFY", 0xad);
    h_check_name("CHECKMULTISIG", "OP_CHECKMULTISIG", 0xae);
    h_check_name("CHECKMULTISIGVERIFY", "OP_CHECKMULTISIGVERIFY", 0xaf);
    h_check_name("NOP1", "OP_NOP1", 0xb0);
    h_check_name("CHECKLOCKTIMEVERIFY", "OP_CHECKLOCKTIMEVERIFY", 0xb1);
    h_check_name("CHECKSEQUENCEVERIFY", "OP_CHECKSEQUENCEVERIFY", 0xb2);
    h_check_name("NOP4", "OP_NOP4", 0xb3);
    h_check_name("NOP5", "OP_NOP5", 0xb4);
    h_check_name("NOP6", "OP_NOP6", 0xb5);
    h_check_name("NOP7", "OP_NOP7", 0xb6);
    h_check_name("NOP8", "OP_NOP8", 0xb7);
    h_check_name("NOP9", "OP_NOP9", 0xb8);
#endif
#if H_CHUNK == 7
    h_check_name("NOP10", "OP_NOP10", 0xb9);
    h_check_name("CHECKSIGADD", "OP_CHECKSIGADD", 0xba);
#endif

    __CPROVER_assert(0, "canary: all names of this query were looked up and control returned");
}
extern "C" void h_getopcode_escape(void) {
    // OP_xNN: any two hex digits (either case) denote the opcode byte NN
    const char dig[] = "0123456789abcdefABCDEF"; unsigned int i = nondet_uint() % 22u, j = nondet_uint() % 22u;
    char nm[8] = {'O', 'P', '_', 'x', 0, 0, 0, 0}; nm[4] = dig[i]; nm[5] = dig[j];
    unsigned int hi = i < 16 ? i : i - 6, lo = j < 16 ? j : j - 6;
    __CPROVER_assert((unsigned int)GetOpCode(nm) == hi * 16 + lo, "spec: OP_xNN is the opcode byte NN");
    __CPROVER_assert((unsigned int)GetOpCode(nm + 3) == hi * 16 + lo, "spec: xNN (without OP_) is the opcode byte NN");
    __CPROVER_assert(!(i == 21 && j == 0), "canary: upper-case hex digit reachable");
}
extern "C" void h_getopcode_unknown(void) {
    __CPROVER_assert((unsigned int)GetOpCode("FOO") == 0xff && (unsigned int)GetOpCode("OP_FOO") == 0xff && (unsigned int)GetOpCode("OP_") == 0xff && (unsigned int)GetOpCode("") == 0xff, "spec: unknown names resolve to no opcode");
    __CPROVER_assert((unsigned int)GetOpCode("x1") == 0xff && (unsigned int)GetOpCode("xZZ") == 0xff && (unsigned int)GetOpCode("OP_x123") == 0xff && (unsigned int)GetOpCode("dup") == 0xff && (unsigned int)GetOpCode("OP_DUP ") == 0xff, "spec: malformed escapes, lower-case names and names with trailing characters resolve to no opcode");
    __CPROVER_assert((unsigned int)GetOpCode("17") == 0xff && (unsigned int)GetOpCode("NOP2") == 0xff && (unsigned int)GetOpCode("NOP3") == 0xff, "spec: 17 and the retired NOP2/NOP3 names are not opcode names");
    __CPROVER_assert(0, "canary: control returned");
}
