// h_tokenise.h -- contract of btcc's tokeniser Value::parse_args(const char*, size_t) (property C07: "whitespace and comment
// variants", "bracketed sub-scripts to any nesting depth") for every input of up to VERIF_TOK_N characters over the alphabet
// { letter, '[', ']', space, '#', newline } (bounded stand-in: nested loops with data-dependent exits, no invariant proof).
// Grammar the spec scanner below implements (written from the documentation of the script syntax, not from the code):
//   * tokens are maximal runs of characters that are not separators; separators are space / tab / CR / LF and a ']' outside any group;
//   * a '[' opens a group reaching to its matching ']' (nested brackets counted); the group, brackets included, is part of the token
//     it occurs in, whatever it contains; an unclosed group rejects the input;
//   * a '#' outside any group ends the pending token and starts a comment that runs to the end of the line.
#pragma once
extern "C" void h_tokenise(void) {
    char s[VERIF_TOK_N + 2]; size_t n = nondet_size(); __CPROVER_assume(n >= 1 && n <= VERIF_TOK_N);
    for (size_t i = 0; i < VERIF_TOK_N + 2; ++i) { s[i] = 0; if (i < n) { unsigned char c = nondet_uchar(); __CPROVER_assume(c == 'a' || c == '[' || c == ']' || c == ' ' || c == '#' || c == '\n'); s[i] = (char)c; } }
    // ---- spec scanner
    size_t eo[VERIF_TOK_N + 2], el[VERIF_TOK_N + 2]; size_t ek = 0; bool reject = false;
    { size_t i = 0; bool pending = false; size_t start = 0;
      for (size_t guard = 0; guard < VERIF_TOK_N + 2; ++guard) {
          if (i >= n) break;
          char c = s[i];
          if (c == '[') {
              if (!pending) { pending = true; start = i; }
              size_t j = i + 1; size_t depth = 1;
              for (size_t g2 = 0; g2 < VERIF_TOK_N + 1; ++g2) { if (!(j < n && depth > 0)) break; if (s[j] == '[') depth = depth + 1; if (s[j] == ']') depth = depth - 1; j = j + 1; }
              if (depth > 0) { reject = true; break; }
              i = j;
          } else if (c == ' ' || c == '\t' || c == '\n' || c == '\r' || c == ']') {
              if (pending) { eo[ek] = start; el[ek] = i - start; ek = ek + 1; pending = false; }
              i = i + 1;
          } else if (c == '#') {
              if (pending) { eo[ek] = start; el[ek] = i - start; ek = ek + 1; pending = false; }
              for (size_t g2 = 0; g2 < VERIF_TOK_N + 1; ++g2) { if (!(i < n && s[i] != '\n' && s[i] != '\r')) break; i = i + 1; }
          } else { if (!pending) { pending = true; start = i; } i = i + 1; }
      }
      if (!reject && pending) { eo[ek] = start; el[ek] = n - start; ek = ek + 1; }
    }
    g_tok_base = s; g_tok_calls = 0; g_tok_freed = 0; g_tok_done = 0; g_tok_pushed = 0;
    verif_expect_exit = reject ? 1 : 0;
    verif_tokenise(s, n);
    __CPROVER_assert(!reject, "spec: an unclosed bracket group rejects the input (tokeniser must exit)");
    __CPROVER_assert((size_t)g_tok_calls == ek && (size_t)g_tok_pushed == ek && g_tok_done == 1, "spec: the number of tokens is the number of maximal separator-free runs (groups atomic, comments dropped)");
    bool same = true; for (size_t k = 0; k < VERIF_TOK_N + 1; ++k) if (k < ek && (size_t)g_tok_calls == ek && (g_tok_off[k] != eo[k] || g_tok_len[k] != el[k])) same = false;
    __CPROVER_assert(same, "spec: each token is exactly its run of characters, in order (nothing dropped, no comment text leaks into a token)");
    __CPROVER_assert((size_t)g_tok_freed == ek, "spec: every token copy is released");
    __CPROVER_assert(reject, "canary: accepted input reachable");
    __CPROVER_assert(!(ek == 3), "canary: three tokens reachable");
}
