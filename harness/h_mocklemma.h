// h_mocklemma.h -- lemma over the signature-opcode specification (property C11): a --pretend-valid pair S:P
//  (a) makes "S checked against P" succeed whatever the flags, encodings, script version or oracle verdicts,
//  (b) never makes another signature succeed for P on the strength of the option: the step equals the step without the option,
//  (c) leaves every step that does not involve P exactly as it is without the option.
// Valid for the real code because the C02 queries establish code == spec for every mock configuration (re-run with this lemma).
#pragma once
typedef verif_bytes sbytes; typedef verif_stack sstack;
#define SPEC_WITH_SIG
#include "spec_step.h"
static bool ml_items_eq(const verif_stack& a, const verif_stack& b) {
    if (a.base != b.base || a.n != b.n) return false;
    for (size_t i = 0; i < VERIF_STACK_W; ++i) if (i < a.n && !(a.w[i] == b.w[i])) return false;
    return true;
}
extern "C" void h_mocklemma(void) {
    SpecCtx c; SpecState s0; SpecSigOracles on, off; SpecSigUse u1, u2;
    __CPROVER_havoc_object(&c); __CPROVER_havoc_object(&s0); __CPROVER_havoc_object(&on);
    s0.stack.n = H_N; s0.alt.n = 0; __CPROVER_assume(s0.stack.base <= 1000000000UL && s0.alt.base <= 1000000000UL);
    for (size_t i = 0; i < VERIF_STACK_W; ++i) __CPROVER_assume(s0.stack.w[i].n <= VERIF_ITEM_CAP);
    __CPROVER_assume(on.mock_sig.n <= VERIF_ITEM_CAP && on.mock_key.n <= VERIF_ITEM_CAP);
    __CPROVER_assume(c.opcode == H_OP && c.getop_ok && c.push.n == 0);
    __CPROVER_assume(c.sv == SSV_BASE || c.sv == SSV_WITNESS_V0 || c.sv == SSV_TAPSCRIPT || c.sv == SSV_TAPROOT);
    __CPROVER_assume(c.sv != SSV_TAPROOT || H_OP == SOP_CHECKSIG);
    __CPROVER_assume(s0.nOpCount >= 0 && s0.nOpCount <= 201 && s0.cs_first_false == SPEC_NO_FALSE && s0.cs_size <= 1000);
    for (int i = 0; i < VERIF_ORACLE_N; ++i) __CPROVER_assume(on.fad_result[i] >= 0 && on.fad_result[i] <= 3);
    on.mock_on = true;
    // (field-wise copy: CBMC's front end cannot generate the default assignment of structs holding arrays of class type)
    for (int i = 0; i < VERIF_ORACLE_N; ++i) { off.ecdsa_ok[i] = on.ecdsa_ok[i]; off.fad_result[i] = on.fad_result[i]; }
    off.schnorr_ok = on.schnorr_ok; off.schnorr_err = on.schnorr_err; off.lows_ok = on.lows_ok; off.mock_sig = on.mock_sig; off.mock_key = on.mock_key; off.mock_on = false;
    u1.ecdsa_calls = 0; u1.schnorr_calls = 0; u1.fad_calls = 0; u1.weight = nondet_long(); __CPROVER_assume(u1.weight >= -1000 && u1.weight <= 4000000);
    u2.ecdsa_calls = 0; u2.schnorr_calls = 0; u2.fad_calls = 0; u2.weight = u1.weight;
    SpecState sA = s0, sB = s0;
    g_spec_orc = &on; g_spec_use = &u1; SpecOut oA = spec_step(c, sA);
    g_spec_orc = &off; g_spec_use = &u2; SpecOut oB = spec_step(c, sB);
    // which signature / key does the opcode look at (single-signature opcodes)
    const sbytes& key = s0.stack.sel(H_N - 1);
    const sbytes& sig = s0.stack.sel(H_OP == SOP_CHECKSIGADD ? H_N - 3 : H_N - 2);
    const bool involves = key == on.mock_key;
    if (involves && sig == on.mock_sig) {
        __CPROVER_assert(oA.kind != SO_ERR || oA.err == (int)SCRIPT_ERR_STACK_SIZE || oA.err == (int)SCRIPT_ERR_OP_COUNT || oA.err == (int)SCRIPT_ERR_BAD_OPCODE, "lemma: (a) the listed signature checked against its listed key succeeds regardless of flags, encodings, version and transaction context");
        __CPROVER_assert(u1.ecdsa_calls == 0 && u1.schnorr_calls == 0, "lemma: (a) ... without consulting signature verification");
    } else {
        __CPROVER_assert(oA.kind == oB.kind && oA.err == oB.err && oA.exc == oB.exc, "lemma: (b,c) any other signature/key combination has the same verdict as without the option");
        __CPROVER_assert(oA.kind != SO_OK || (ml_items_eq(sA.stack, sB.stack) && sA.nOpCount == sB.nOpCount && u1.weight == u2.weight), "lemma: (b,c) ... and the same resulting stack, op count and signature budget");
    }
    __CPROVER_assert(!(involves && sig == on.mock_sig && oA.kind == SO_OK), "canary: listed pair reachable");
    __CPROVER_assert(!(involves && !(sig == on.mock_sig)), "canary: other signature for the listed key reachable");
    __CPROVER_assert(involves, "canary: unrelated key reachable");
}
