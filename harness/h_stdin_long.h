// h_stdin_long.h -- the script given on stdin is taken WHOLE (property C08: "script given on stdin"): for every first line of up to
// VERIF_LINE_MAX characters (a single 520-byte push is 1040 hex characters) the script text has exactly the length of the line
// without its LF / CRLF terminator, starts with its first and ends with its last character.  The line is modelled by length
// (stubs/stdin_long_env.h); the short-line contract main_stdin_script compares every byte.
#pragma once
extern "C" void h_stdin_long(void) {
    g_in_n = nondet_size(); __CPROVER_assume(g_in_n >= 1 && g_in_n <= VERIF_LINE_MAX);
    g_in_term = nondet_uint() % 3u;
    g_in_first = (char)nondet_uchar(); g_in_last = (char)nondet_uchar();
    __CPROVER_assume(g_in_first != 0 && g_in_first != '\n' && g_in_first != '\r' && g_in_last != 0 && g_in_last != '\n' && g_in_last != '\r');
    if (g_in_n == 1) g_in_first = g_in_last;
    g_in_pos = 0; g_in_eof = false; g_getline_calls = 0; g_dup_calls = 0; g_buf = 0; g_buf_len = 0;
    char* r = verif_stdin_script_long();
    __CPROVER_assert(r == g_dup_obj && g_dup_calls == 1, "spec: a script string is produced");
    __CPROVER_assert(g_dup_len == g_in_n, "spec: the script has exactly the length of the input line without its terminator - a long line is not cut short");
    __CPROVER_assert(g_dup_len != g_in_n || (g_dup_first == g_in_first && g_dup_last == g_in_last), "spec: ... and starts and ends with the line's first and last character");
    __CPROVER_assert(g_in_n != 1040, "canary: a line of 1040 characters (one maximal push) is reachable");
    __CPROVER_assert(g_in_term != 2, "canary: CRLF-terminated line reachable");
}
