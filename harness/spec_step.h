// spec_step.h -- executable transcription of Bitcoin's script rules for ONE operation (consensus rules as in
// Bitcoin Core's EvalScript loop body + BIP 16/62/65/112/141/147/342), written from those rules and independent of
// btcdeb's StepScript text.  C++ over the std::vector API only, so the same text runs
//   * inside CBMC on the stub containers (sbytes = verif_bytes, sstack = verif_stack), and
//   * natively in the replay drivers on std::vector.
// Opcode byte values are the protocol constants (NOT taken from /repo's enum); error identities are /repo's names.
#pragma once
#include "spec_scriptnum.h"

enum { SO_OK = 0, SO_ERR = 1, SO_EXC = 2 };
enum { SOP_0 = 0x00, SOP_PUSHDATA1 = 0x4c, SOP_PUSHDATA2 = 0x4d, SOP_PUSHDATA4 = 0x4e, SOP_1NEGATE = 0x4f, SOP_RESERVED = 0x50, SOP_1 = 0x51, SOP_16 = 0x60,
       SOP_NOP = 0x61, SOP_VER = 0x62, SOP_IF = 0x63, SOP_NOTIF = 0x64, SOP_VERIF = 0x65, SOP_VERNOTIF = 0x66, SOP_ELSE = 0x67, SOP_ENDIF = 0x68, SOP_VERIFY = 0x69, SOP_RETURN = 0x6a,
       SOP_TOALTSTACK = 0x6b, SOP_FROMALTSTACK = 0x6c, SOP_2DROP = 0x6d, SOP_2DUP = 0x6e, SOP_3DUP = 0x6f, SOP_2OVER = 0x70, SOP_2ROT = 0x71, SOP_2SWAP = 0x72,
       SOP_IFDUP = 0x73, SOP_DEPTH = 0x74, SOP_DROP = 0x75, SOP_DUP = 0x76, SOP_NIP = 0x77, SOP_OVER = 0x78, SOP_PICK = 0x79, SOP_ROLL = 0x7a, SOP_ROT = 0x7b, SOP_SWAP = 0x7c, SOP_TUCK = 0x7d,
       SOP_CAT = 0x7e, SOP_SUBSTR = 0x7f, SOP_LEFT = 0x80, SOP_RIGHT = 0x81, SOP_SIZE = 0x82, SOP_INVERT = 0x83, SOP_AND = 0x84, SOP_OR = 0x85, SOP_XOR = 0x86,
       SOP_EQUAL = 0x87, SOP_EQUALVERIFY = 0x88, SOP_RESERVED1 = 0x89, SOP_RESERVED2 = 0x8a,
       SOP_1ADD = 0x8b, SOP_1SUB = 0x8c, SOP_2MUL = 0x8d, SOP_2DIV = 0x8e, SOP_NEGATE = 0x8f, SOP_ABS = 0x90, SOP_NOT = 0x91, SOP_0NOTEQUAL = 0x92,
       SOP_ADD = 0x93, SOP_SUB = 0x94, SOP_MUL = 0x95, SOP_DIV = 0x96, SOP_MOD = 0x97, SOP_LSHIFT = 0x98, SOP_RSHIFT = 0x99,
       SOP_BOOLAND = 0x9a, SOP_BOOLOR = 0x9b, SOP_NUMEQUAL = 0x9c, SOP_NUMEQUALVERIFY = 0x9d, SOP_NUMNOTEQUAL = 0x9e, SOP_LESSTHAN = 0x9f, SOP_GREATERTHAN = 0xa0,
       SOP_LESSTHANOREQUAL = 0xa1, SOP_GREATERTHANOREQUAL = 0xa2, SOP_MIN = 0xa3, SOP_MAX = 0xa4, SOP_WITHIN = 0xa5,
       SOP_RIPEMD160 = 0xa6, SOP_SHA1 = 0xa7, SOP_SHA256 = 0xa8, SOP_HASH160 = 0xa9, SOP_HASH256 = 0xaa, SOP_CODESEPARATOR = 0xab,
       SOP_CHECKSIG = 0xac, SOP_CHECKSIGVERIFY = 0xad, SOP_CHECKMULTISIG = 0xae, SOP_CHECKMULTISIGVERIFY = 0xaf,
       SOP_NOP1 = 0xb0, SOP_CLTV = 0xb1, SOP_CSV = 0xb2, SOP_NOP4 = 0xb3, SOP_NOP10 = 0xb9, SOP_CHECKSIGADD = 0xba };
enum { SSV_BASE = 0, SSV_WITNESS_V0 = 1, SSV_TAPROOT = 2, SSV_TAPSCRIPT = 3 };
enum { SH_NONE = 0, SH_RIPEMD160 = 1, SH_SHA1 = 2, SH_SHA256 = 3, SH_HASH160 = 4, SH_HASH256 = 5 };
static const uint32_t SPEC_NO_FALSE = 0xffffffffU;
static const size_t SPEC_MAX_ELEMENT = 520; static const int SPEC_MAX_OPS = 201; static const size_t SPEC_MAX_STACK = 1000;

struct SpecCtx {            // what the operation is and what the environment answers (inputs of the step)
    unsigned int flags; int sv; bool allow_disabled;
    bool getop_ok; unsigned int opcode; sbytes push;      // the decoded operation (push.size() may exceed storage only for the size check)
    bool locktime_ok, sequence_ok;                        // oracle answers of the signature checker's lock-time tests
    unsigned char hash_out[32];                           // oracle output of the hash function applied by this op
    uint32_t opcode_pos;                                  // index of this opcode in the script (BIP342 code-separator position)
};
struct SpecState {          // the state the rules speak about
    sstack stack; sstack alt;
    uint32_t cs_size; uint32_t cs_first_false;            // conditional nesting: depth and index of the first false (SPEC_NO_FALSE if none)
    int nOpCount;
    bool codesep_moved; uint32_t codesep_pos;             // an executed OP_CODESEPARATOR moves the signed-code start to just after itself
    // expectations about oracle use
    int locktime_calls, sequence_calls; int64_t locktime_arg, sequence_arg;
    int hash_calls, hash_algo; sbytes hash_in;
};
struct SpecOut { int kind; int err; int exc; };

static inline bool spec_truth(const sbytes& v) {
    for (size_t i = 0; i < v.size(); ++i)
        if (v[i] != 0) return !(i == v.size() - 1 && v[i] == 0x80);   // negative zero is false
    return false;
}
static inline sbytes spec_enc(int64_t x) {
    sbytes out; bool neg = x < 0; uint64_t a = neg ? (uint64_t)0 - (uint64_t)x : (uint64_t)x;
    for (int i = 0; i < 8; ++i) if (a) { out.push_back((unsigned char)(a & 0xff)); a >>= 8; }
    if (out.size() > 0) { if (out[out.size() - 1] & 0x80) out.push_back(neg ? 0x80 : 0x00); else if (neg) out[out.size() - 1] = out[out.size() - 1] | 0x80; }
    return out;
}
static inline sbytes spec_bool(bool b) { sbytes out; if (b) out.push_back(1); return out; }
static inline bool spec_minimal_push(const sbytes& d, unsigned int opcode) {   // BIP62 rule 3
    size_t n = d.size();
    if (n == 0) return opcode == SOP_0;
    if (n == 1 && d[0] >= 1 && d[0] <= 16) return false;
    if (n == 1 && d[0] == 0x81) return false;
    if (n <= 75) return opcode == n;
    if (n <= 255) return opcode == SOP_PUSHDATA1;
    if (n <= 65535) return opcode == SOP_PUSHDATA2;
    return true;
}
static inline bool spec_is_disabled(unsigned int op) {
    return op == SOP_CAT || op == SOP_SUBSTR || op == SOP_LEFT || op == SOP_RIGHT || op == SOP_INVERT || op == SOP_AND || op == SOP_OR || op == SOP_XOR ||
           op == SOP_2MUL || op == SOP_2DIV || op == SOP_MUL || op == SOP_DIV || op == SOP_MOD || op == SOP_LSHIFT || op == SOP_RSHIFT;
}
static inline void spec_cs_push(SpecState& st, bool f) { if (st.cs_first_false == SPEC_NO_FALSE && !f) st.cs_first_false = st.cs_size; st.cs_size = st.cs_size + 1; }
static inline void spec_cs_pop(SpecState& st) { st.cs_size = st.cs_size - 1; if (st.cs_first_false == st.cs_size) st.cs_first_false = SPEC_NO_FALSE; }
static inline void spec_cs_toggle(SpecState& st) {
    if (st.cs_first_false == SPEC_NO_FALSE) st.cs_first_false = st.cs_size - 1;
    else if (st.cs_first_false == st.cs_size - 1) st.cs_first_false = SPEC_NO_FALSE;
}

#define S_ERR(e) do { out.kind = SO_ERR; out.err = (int)(e); return out; } while (0)
#define S_EXC(k) do { out.kind = SO_EXC; out.exc = (k); return out; } while (0)
#define S_NEED(k) do { if (S.size() < (size_t)(k)) S_ERR(SCRIPT_ERR_INVALID_STACK_OPERATION); } while (0)
#define S_TOP(k) (S[S.size() - (k)])
#ifndef SPEC_EXT_NUM_BYTES
#define SPEC_EXT_NUM_BYTES 5
#endif
#ifndef SPEC_EXT_MUL_BYTES
#define SPEC_EXT_MUL_BYTES 4
#endif
#define S_NUM(var, item, maxlen) int64_t var; do { int k_ = spec_num_decode_kind((item).data(), (item).size(), minimal, (maxlen)); if (k_ != 0) S_EXC(k_); var = spec_num_value((item).data(), (item).size()); } while (0)


// ---- re-enabled ("extended") opcodes, property C17: the functions their names denote (Bitcoin 0.3 semantics on script
// values); invalid operands must yield a script error (any error code: err = -1), never a trap.
#define SPEC_ANY_ERROR (-1)
static inline SpecOut spec_ext(const SpecCtx& c, SpecState& st) {
    SpecOut out; out.kind = SO_OK; out.err = 0; out.exc = 0;
    sstack& S = st.stack;
    const unsigned int op = c.opcode;
    const bool minimal = (c.flags & SCRIPT_VERIFY_MINIMALDATA) != 0;
    if (op == SOP_CAT) {                       // (x1 x2 -- x1||x2)
        S_NEED(2); sbytes a = S_TOP(2); const sbytes& b = S_TOP(1);
        for (size_t i = 0; i < b.size(); ++i) a.push_back(b[i]);
        S.pop_back(); S.pop_back(); S.push_back(a);
    } else if (op == SOP_SUBSTR) {             // (in begin size -- in[begin, begin+size))
        S_NEED(3);
        S_NUM(first, S_TOP(2), 2);
        if (first < 0) S_ERR(SPEC_ANY_ERROR);
        S_NUM(cnt, S_TOP(1), 2);
        const sbytes& in = S_TOP(3);
        if (cnt < 0) S_ERR(SPEC_ANY_ERROR);
        if ((uint64_t)(first + cnt) > (uint64_t)in.size()) S_ERR(SPEC_ANY_ERROR);   // (two statements: CBMC's C++ parser reads `a < b || c > d` as a template-id)
        sbytes r; for (size_t i = 0; i < in.size(); ++i) if ((int64_t)i >= first && (int64_t)i < first + cnt) r.push_back(in[i]);
        S.pop_back(); S.pop_back(); S.pop_back(); S.push_back(r);
    } else if (op == SOP_LEFT || op == SOP_RIGHT) {   // (in size -- first/last size bytes)
        S_NEED(2);
        S_NUM(cnt, S_TOP(1), 2);
        const sbytes& in = S_TOP(2);
        if (cnt < 0) S_ERR(SPEC_ANY_ERROR);
        if ((uint64_t)cnt > (uint64_t)in.size()) S_ERR(SPEC_ANY_ERROR);
        sbytes r; size_t from = 0, to = (size_t)cnt;
        if (op == SOP_RIGHT) { from = in.size() - (size_t)cnt; to = in.size(); }
        for (size_t i = 0; i < in.size(); ++i) if (i >= from && i < to) r.push_back(in[i]);
        S.pop_back(); S.pop_back(); S.push_back(r);
    } else if (op == SOP_INVERT) {             // (in -- ~in)
        S_NEED(1); sbytes r = S_TOP(1);
        for (size_t i = 0; i < r.size(); ++i) r[i] = (unsigned char)(r[i] ^ 0xff);
        S.pop_back(); S.push_back(r);
    } else if (op == SOP_AND || op == SOP_OR || op == SOP_XOR) {   // (x1 x2 -- x1 op x2), equal lengths only
        S_NEED(2); sbytes r = S_TOP(2); const sbytes& b = S_TOP(1);
        if (r.size() != b.size()) S_ERR(SPEC_ANY_ERROR);
        for (size_t i = 0; i < r.size(); ++i) {
            if (op == SOP_AND) r[i] = (unsigned char)(r[i] & b[i]); else if (op == SOP_OR) r[i] = (unsigned char)(r[i] | b[i]); else r[i] = (unsigned char)(r[i] ^ b[i]);
        }
        S.pop_back(); S.pop_back(); S.push_back(r);
    } else if (op == SOP_2MUL || op == SOP_2DIV) {   // (a -- 2a) (a -- a/2 truncated toward zero)
        S_NEED(1);
        S_NUM(a, S_TOP(1), SPEC_EXT_NUM_BYTES);
        int64_t r = 0;
        if (op == SOP_2MUL) r = a + a; else { if (a < 0) r = -((-a) >> 1); else r = a >> 1; }
        S.pop_back(); S.push_back(spec_enc(r));
    } else {                                   // MUL DIV MOD LSHIFT RSHIFT (a b -- out)
        S_NEED(2);
        S_NUM(a, S_TOP(2), op == SOP_MUL ? SPEC_EXT_MUL_BYTES : SPEC_EXT_NUM_BYTES);
        S_NUM(b, S_TOP(1), op == SOP_MUL ? SPEC_EXT_MUL_BYTES : SPEC_EXT_NUM_BYTES);
        int64_t r = 0;
        if (op == SOP_MUL) {
            r = a * b;                         // operands of at most 4 bytes: |a*b| < 2^62
        } else if (op == SOP_DIV || op == SOP_MOD) {
            if (b == 0) S_ERR(SPEC_ANY_ERROR);
            // truncated division; the remainder takes the sign of the dividend: exactly C's / and % (C11 6.5.5p6), which is
            // used here as the definition (|a|,|b| < 2^39, so INT64_MIN / -1 cannot occur)
            if (op == SOP_DIV) r = a / b; else r = a % b;
        } else {
            if (b < 0) S_ERR(SPEC_ANY_ERROR);
            if (b > 63) S_ERR(SPEC_ANY_ERROR);
            if (op == SOP_LSHIFT) {            // a * 2^b, error when it does not fit in a script number (int64)
                uint64_t ua = a < 0 ? (uint64_t)0 - (uint64_t)a : (uint64_t)a;
                uint64_t sh = ua << b;
                if ((sh >> b) != ua || sh > (uint64_t)9223372036854775807L) S_ERR(SPEC_ANY_ERROR);
                if (a < 0) r = -(int64_t)sh; else r = (int64_t)sh;
            } else {                           // floor(a / 2^b)
                if (a >= 0) r = (int64_t)((uint64_t)a >> b);
                else { uint64_t ua = (uint64_t)0 - (uint64_t)a; uint64_t q = ua >> b; bool exact = (q << b) == ua; r = -(int64_t)q; if (!exact) r = r - 1; }
            }
        }
        S.pop_back(); S.pop_back(); S.push_back(spec_enc(r));
    }
    return out;
}

#ifdef SPEC_WITH_SIG
#include "spec_sig.h"
static SpecSigOracles* g_spec_orc; static SpecSigUse* g_spec_use;
#endif
// the rules for one operation.  st is updated in place; on SO_ERR / SO_EXC the state is unspecified.
static inline SpecOut spec_step(const SpecCtx& c, SpecState& st) {
    SpecOut out; out.kind = SO_OK; out.err = 0; out.exc = 0;
    sstack& S = st.stack; sstack& A = st.alt;
    const unsigned int op = c.opcode;
    const bool minimal = (c.flags & SCRIPT_VERIFY_MINIMALDATA) != 0;
    if (!c.getop_ok) S_ERR(SCRIPT_ERR_BAD_OPCODE);
    if (c.push.size() > SPEC_MAX_ELEMENT) S_ERR(SCRIPT_ERR_PUSH_SIZE);
    if (c.sv == SSV_BASE || c.sv == SSV_WITNESS_V0) {
        if (op > SOP_16) { st.nOpCount = st.nOpCount + 1; if (st.nOpCount > SPEC_MAX_OPS) S_ERR(SCRIPT_ERR_OP_COUNT); }
    }
    if (!c.allow_disabled && spec_is_disabled(op)) S_ERR(SCRIPT_ERR_DISABLED_OPCODE);
    if (op == SOP_CODESEPARATOR && c.sv == SSV_BASE && (c.flags & SCRIPT_VERIFY_CONST_SCRIPTCODE)) S_ERR(SCRIPT_ERR_OP_CODESEPARATOR);
    const bool fExec = st.cs_first_false == SPEC_NO_FALSE;
    if (fExec && op <= SOP_PUSHDATA4) {
        if (minimal && !spec_minimal_push(c.push, op)) S_ERR(SCRIPT_ERR_MINIMALDATA);
        S.push_back(c.push);
    } else if (fExec || (SOP_IF <= op && op <= SOP_ENDIF)) {
        if (op == SOP_1NEGATE || (op >= SOP_1 && op <= SOP_16)) {
            S.push_back(spec_enc((int64_t)op - (int64_t)(SOP_1 - 1)));
        } else if (op == SOP_NOP) {
        } else if (op == SOP_CLTV) {
            if (c.flags & SCRIPT_VERIFY_CHECKLOCKTIMEVERIFY) {
                S_NEED(1);
                S_NUM(lock, S_TOP(1), 5);
                if (lock < 0) S_ERR(SCRIPT_ERR_NEGATIVE_LOCKTIME);
                st.locktime_calls = st.locktime_calls + 1; st.locktime_arg = lock;
                if (!c.locktime_ok) S_ERR(SCRIPT_ERR_UNSATISFIED_LOCKTIME);
            }
        } else if (op == SOP_CSV) {
            if (c.flags & SCRIPT_VERIFY_CHECKSEQUENCEVERIFY) {
                S_NEED(1);
                S_NUM(seq, S_TOP(1), 5);
                if (seq < 0) S_ERR(SCRIPT_ERR_NEGATIVE_LOCKTIME);
                if ((seq & (int64_t)(1U << 31)) == 0) {
                    st.sequence_calls = st.sequence_calls + 1; st.sequence_arg = seq;
                    if (!c.sequence_ok) S_ERR(SCRIPT_ERR_UNSATISFIED_LOCKTIME);
                }
            }
        } else if (op == SOP_NOP1 || (op >= SOP_NOP4 && op <= SOP_NOP10)) {
            if (c.flags & SCRIPT_VERIFY_DISCOURAGE_UPGRADABLE_NOPS) S_ERR(SCRIPT_ERR_DISCOURAGE_UPGRADABLE_NOPS);
        } else if (op == SOP_IF || op == SOP_NOTIF) {
            bool v = false;
            if (fExec) {
                if (S.size() < 1) S_ERR(SCRIPT_ERR_UNBALANCED_CONDITIONAL);
                const sbytes& t = S_TOP(1);
                bool minimal_if = t.size() == 0 || (t.size() == 1 && t[0] == 1);
                if (c.sv == SSV_TAPSCRIPT && !minimal_if) S_ERR(SCRIPT_ERR_TAPSCRIPT_MINIMALIF);
                if (c.sv == SSV_WITNESS_V0 && (c.flags & SCRIPT_VERIFY_MINIMALIF) && !minimal_if) S_ERR(SCRIPT_ERR_MINIMALIF);
                v = spec_truth(t);
                if (op == SOP_NOTIF) v = !v;
                S.pop_back();
            }
            spec_cs_push(st, v);
        } else if (op == SOP_ELSE) {
            if (st.cs_size == 0) S_ERR(SCRIPT_ERR_UNBALANCED_CONDITIONAL);
            spec_cs_toggle(st);
        } else if (op == SOP_ENDIF) {
            if (st.cs_size == 0) S_ERR(SCRIPT_ERR_UNBALANCED_CONDITIONAL);
            spec_cs_pop(st);
        } else if (op == SOP_VERIFY) {
            S_NEED(1);
            if (!spec_truth(S_TOP(1))) S_ERR(SCRIPT_ERR_VERIFY);
            S.pop_back();
        } else if (op == SOP_RETURN) {
            S_ERR(SCRIPT_ERR_OP_RETURN);
        } else if (op == SOP_TOALTSTACK) {
            S_NEED(1); A.push_back(S_TOP(1)); S.pop_back();
        } else if (op == SOP_FROMALTSTACK) {
            if (A.size() < 1) S_ERR(SCRIPT_ERR_INVALID_ALTSTACK_OPERATION);
            S.push_back(A[A.size() - 1]); A.pop_back();
        } else if (op == SOP_2DROP) {
            S_NEED(2); S.pop_back(); S.pop_back();
        } else if (op == SOP_2DUP) {
            S_NEED(2); sbytes a = S_TOP(2), b = S_TOP(1); S.push_back(a); S.push_back(b);
        } else if (op == SOP_3DUP) {
            S_NEED(3); sbytes a = S_TOP(3), b = S_TOP(2), d = S_TOP(1); S.push_back(a); S.push_back(b); S.push_back(d);
        } else if (op == SOP_2OVER) {
            S_NEED(4); sbytes a = S_TOP(4), b = S_TOP(3); S.push_back(a); S.push_back(b);
        } else if (op == SOP_2ROT) {
            S_NEED(6); sbytes a = S_TOP(6), b = S_TOP(5);
            S_TOP(6) = S_TOP(4); S_TOP(5) = S_TOP(3); S_TOP(4) = S_TOP(2); S_TOP(3) = S_TOP(1); S_TOP(2) = a; S_TOP(1) = b;
        } else if (op == SOP_2SWAP) {
            S_NEED(4); sbytes a = S_TOP(4), b = S_TOP(3); S_TOP(4) = S_TOP(2); S_TOP(3) = S_TOP(1); S_TOP(2) = a; S_TOP(1) = b;
        } else if (op == SOP_IFDUP) {
            S_NEED(1); sbytes a = S_TOP(1); if (spec_truth(a)) S.push_back(a);
        } else if (op == SOP_DEPTH) {
            S.push_back(spec_enc((int64_t)S.size()));
        } else if (op == SOP_DROP) {
            S_NEED(1); S.pop_back();
        } else if (op == SOP_DUP) {
            S_NEED(1); sbytes a = S_TOP(1); S.push_back(a);
        } else if (op == SOP_NIP) {
            S_NEED(2); S_TOP(2) = S_TOP(1); S.pop_back();
        } else if (op == SOP_OVER) {
            S_NEED(2); sbytes a = S_TOP(2); S.push_back(a);
        } else if (op == SOP_PICK || op == SOP_ROLL) {
            S_NEED(2);
            S_NUM(n, S_TOP(1), 4);
            S.pop_back();
            if (n < 0 || (uint64_t)n >= (uint64_t)S.size()) S_ERR(SCRIPT_ERR_INVALID_STACK_OPERATION);
            sbytes a = S_TOP((size_t)n + 1);
            if (op == SOP_ROLL) { for (size_t k = (size_t)n + 1; k > 1; --k) S_TOP(k) = S_TOP(k - 1); S.pop_back(); }
            S.push_back(a);
        } else if (op == SOP_ROT) {
            S_NEED(3); sbytes a = S_TOP(3); S_TOP(3) = S_TOP(2); S_TOP(2) = S_TOP(1); S_TOP(1) = a;
        } else if (op == SOP_SWAP) {
            S_NEED(2); sbytes a = S_TOP(2); S_TOP(2) = S_TOP(1); S_TOP(1) = a;
        } else if (op == SOP_TUCK) {
            S_NEED(2); sbytes a = S_TOP(2), b = S_TOP(1); S_TOP(2) = b; S_TOP(1) = a; S.push_back(b);
        } else if (op == SOP_SIZE) {
            S_NEED(1); S.push_back(spec_enc((int64_t)S_TOP(1).size()));
        } else if (op == SOP_EQUAL || op == SOP_EQUALVERIFY) {
            S_NEED(2); bool eq = S_TOP(2) == S_TOP(1); S.pop_back(); S.pop_back();
            if (op == SOP_EQUALVERIFY) { if (!eq) S_ERR(SCRIPT_ERR_EQUALVERIFY); } else S.push_back(spec_bool(eq));
        } else if (op == SOP_1ADD || op == SOP_1SUB || op == SOP_NEGATE || op == SOP_ABS || op == SOP_NOT || op == SOP_0NOTEQUAL) {
            S_NEED(1);
            S_NUM(a, S_TOP(1), 4);
            int64_t r = 0;   // (if/else chain, not a conditional expression: CBMC's C++ front end mis-types ?: chains that mix bool and int64)
            if (op == SOP_1ADD) r = a + 1; else if (op == SOP_1SUB) r = a - 1; else if (op == SOP_NEGATE) r = -a;
            else if (op == SOP_ABS) { if (a < 0) r = -a; else r = a; }
            else if (op == SOP_NOT) { if (a == 0) r = 1; else r = 0; }
            else { if (a != 0) r = 1; else r = 0; }
            S.pop_back(); S.push_back(spec_enc(r));
        } else if (op == SOP_ADD || op == SOP_SUB || (op >= SOP_BOOLAND && op <= SOP_MAX)) {
            S_NEED(2);
            S_NUM(a, S_TOP(2), 4);
            S_NUM(b, S_TOP(1), 4);
            int64_t r = 0; bool t = false;
            if (op == SOP_ADD) r = a + b; else if (op == SOP_SUB) r = a - b;
            else if (op == SOP_MIN) { if (a < b) r = a; else r = b; }
            else if (op == SOP_MAX) { if (a > b) r = a; else r = b; }
            else {
                if (op == SOP_BOOLAND) t = (a != 0 && b != 0); else if (op == SOP_BOOLOR) t = (a != 0 || b != 0);
                else if (op == SOP_NUMEQUAL || op == SOP_NUMEQUALVERIFY) t = (a == b); else if (op == SOP_NUMNOTEQUAL) t = (a != b);
                else if (op == SOP_LESSTHAN) t = (a < b); else if (op == SOP_GREATERTHAN) t = (a > b);
                else if (op == SOP_LESSTHANOREQUAL) t = (a <= b); else t = (a >= b);
                if (t) r = 1; else r = 0;
            }
            S.pop_back(); S.pop_back();
            if (op == SOP_NUMEQUALVERIFY) { if (r == 0) S_ERR(SCRIPT_ERR_NUMEQUALVERIFY); } else S.push_back(spec_enc(r));
        } else if (op == SOP_WITHIN) {
            S_NEED(3);
            S_NUM(x, S_TOP(3), 4);
            S_NUM(lo, S_TOP(2), 4);
            S_NUM(hi, S_TOP(1), 4);
            S.pop_back(); S.pop_back(); S.pop_back(); S.push_back(spec_bool(lo <= x && x < hi));
        } else if (op >= SOP_RIPEMD160 && op <= SOP_HASH256) {
            S_NEED(1);
            st.hash_calls = st.hash_calls + 1; st.hash_in = S_TOP(1);
            if (op == SOP_RIPEMD160) st.hash_algo = SH_RIPEMD160; else if (op == SOP_SHA1) st.hash_algo = SH_SHA1; else if (op == SOP_SHA256) st.hash_algo = SH_SHA256; else if (op == SOP_HASH160) st.hash_algo = SH_HASH160; else st.hash_algo = SH_HASH256;
            size_t len = 32; if (op == SOP_RIPEMD160 || op == SOP_SHA1 || op == SOP_HASH160) len = 20;
            sbytes h; for (size_t i = 0; i < len; ++i) h.push_back(c.hash_out[i]);
            S.pop_back(); S.push_back(h);
        } else if (op == SOP_CODESEPARATOR) {
            st.codesep_moved = true; st.codesep_pos = c.opcode_pos;
        } else if (spec_is_disabled(op)) {
            SpecOut eo = spec_ext(c, st);
            if (eo.kind != SO_OK) return eo;
#ifdef SPEC_WITH_SIG
        } else if ((op >= SOP_CHECKSIG && op <= SOP_CHECKMULTISIGVERIFY) || op == SOP_CHECKSIGADD) {
            SpecOut so = spec_sig_op(c, st, *g_spec_orc, *g_spec_use);
            if (so.kind != SO_OK) return so;
#endif
        } else {
            // OP_RESERVED, OP_VER, OP_VERIF, OP_VERNOTIF, OP_RESERVED1/2, everything above OP_CHECKSIGADD; signature opcodes are
            // specified in spec_sig.h and never reach this function
            S_ERR(SCRIPT_ERR_BAD_OPCODE);
        }
    }
    if (S.size() + A.size() > SPEC_MAX_STACK) S_ERR(SCRIPT_ERR_STACK_SIZE);
    return out;
}
