// h_decode.h -- contracts of the script decoding leaves (C01 L0).  Spec: the script grammar of the Bitcoin protocol
// (opcode byte; 0x01..0x4b direct push; 0x4c/0x4d/0x4e push with 1/2/4-byte little-endian length).
#pragma once
#ifndef H_SCRIPT_N
#define H_SCRIPT_N 16
#endif
struct spec_op { bool ok; unsigned int opcode; size_t hdr; uint64_t nsize; };
static spec_op spec_decode(const unsigned char* b, size_t len, size_t off) {
    spec_op r; r.ok = false; r.opcode = 0xff; r.hdr = 0; r.nsize = 0;
    if (off >= len) return r;
    unsigned int op = b[off]; size_t rem = len - off - 1; size_t hdr = 1; uint64_t n = 0;
    if (op < 0x4c) n = op;
    else if (op == 0x4c) { if (rem < 1) return r; n = b[off + 1]; hdr = 2; }
    else if (op == 0x4d) { if (rem < 2) return r; n = (uint64_t)b[off + 1] | ((uint64_t)b[off + 2] << 8); hdr = 3; }
    else if (op == 0x4e) { if (rem < 4) return r; n = (uint64_t)b[off + 1] | ((uint64_t)b[off + 2] << 8) | ((uint64_t)b[off + 3] << 16) | ((uint64_t)b[off + 4] << 24); hdr = 5; }
    if ((uint64_t)(len - off - hdr) < n) return r;
    r.ok = true; r.opcode = op; r.hdr = hdr; r.nsize = n; return r;
}
// ---- GetScriptOp with payload: scripts of up to H_SCRIPT_N stored bytes, any position
extern "C" void h_getscriptop(void) {
    unsigned char buf[H_SCRIPT_N]; for (size_t i = 0; i < H_SCRIPT_N; ++i) buf[i] = nondet_uchar();
    size_t len = nondet_size(), off = nondet_size(); __CPROVER_assume(len <= H_SCRIPT_N && off <= len);
    const unsigned char* pc = buf + off; opcodetype opc; verif_bytes v; __CPROVER_havoc_object(&v); __CPROVER_assume(v.n <= VERIF_ITEM_CAP);
    spec_op e = spec_decode(buf, len, off);
    bool ok = GetScriptOp(pc, buf + len, opc, &v);
    __CPROVER_assert(ok == e.ok, "spec: decoding succeeds exactly when a complete operation (opcode, length bytes, payload) lies inside the script");
    if (!ok) { __CPROVER_assert((unsigned int)opc == 0xff, "spec: a failed decode reports OP_INVALIDOPCODE"); __CPROVER_assert(__CPROVER_same_object(pc, buf) && pc <= buf + len, "spec: the position never leaves the script"); }
    else {
        __CPROVER_assert((unsigned int)opc == e.opcode && pc == buf + off + e.hdr + e.nsize, "spec: the opcode is the byte at the position and the position advances past header and payload");
        __CPROVER_assert(v.n == (e.opcode <= 0x4e ? e.nsize : 0), "spec: the push value has the encoded length (empty for non-push opcodes)");
        for (size_t i = 0; i < H_SCRIPT_N; ++i) if (e.opcode <= 0x4e && i < e.nsize) __CPROVER_assert(v.s.a[i] == buf[off + e.hdr + i], "spec: the push value is the payload bytes, in order");
    }
    __CPROVER_assert(!(ok && e.opcode == 0x4d), "canary: OP_PUSHDATA2 decode reachable");
    __CPROVER_assert(!(!ok && off < len), "canary: truncated operation reachable");
}
// ---- GetScriptOp without payload (pvchRet == nullptr): lengths up to 2^32 are handled by arithmetic only
extern "C" void h_getscriptop_len(void) {
    size_t len = nondet_size(); __CPROVER_assume(len >= 5 && len <= 100000UL);   // scripts up to 100,000 bytes (consensus maximum 10,000)
    unsigned char* buf = (unsigned char*)__CPROVER_allocate(len, 0);
    size_t off = nondet_size(); __CPROVER_assume(off <= len);
    const unsigned char* pc = buf + off; opcodetype opc;
    spec_op e; e.ok = false;
    // spec evaluated on the (at most five) header bytes
    unsigned char h[5]; for (size_t i = 0; i < 5; ++i) { h[i] = 0; if (off + i < len) h[i] = buf[off + i]; }
    if (off < len) { unsigned int op = h[0]; size_t rem = len - off - 1; size_t hdr = 1; uint64_t n = 0; bool trunc = false;
        if (op < 0x4c) n = op; else if (op == 0x4c) { if (rem < 1) trunc = true; n = h[1]; hdr = 2; } else if (op == 0x4d) { if (rem < 2) trunc = true; n = (uint64_t)h[1] | ((uint64_t)h[2] << 8); hdr = 3; }
        else if (op == 0x4e) { if (rem < 4) trunc = true; n = (uint64_t)h[1] | ((uint64_t)h[2] << 8) | ((uint64_t)h[3] << 16) | ((uint64_t)h[4] << 24); hdr = 5; }
        if (!trunc && (uint64_t)(len - off - hdr) >= n) { e.ok = true; e.opcode = op; e.hdr = hdr; e.nsize = n; } }
    bool ok = GetScriptOp(pc, buf + len, opc, 0);
    __CPROVER_assert(ok == e.ok, "spec: (length-only) decoding succeeds exactly when header and payload lie inside the script, for payload lengths up to 2^32-1");
    __CPROVER_assert(!ok || ((unsigned int)opc == e.opcode && pc == buf + off + e.hdr + e.nsize), "spec: (length-only) position advances past header and payload");
    __CPROVER_assert(!(ok && e.opcode == 0x4e && e.nsize > 70000), "canary: a large OP_PUSHDATA4 payload reachable");
}
// ---- HasValidOps: refusal rule of parse_script, for every script of up to H_SCRIPT_N bytes
extern "C" void h_hasvalidops(void) {
    CScript s; __CPROVER_havoc_object(&s); __CPROVER_assume(s.n <= H_SCRIPT_N);
    bool expect = true; size_t off = 0;
    for (size_t k = 0; k < H_SCRIPT_N + 1; ++k) {
        if (off >= s.n) break;
        spec_op e = spec_decode(s.s.a, s.n, off);
        // defined opcodes end at OP_CHECKSIGADD (0xba); pushes are limited to 520 bytes
        if (!e.ok || e.opcode > 0xba || (e.opcode <= 0x4e && e.nsize > 520)) { expect = false; break; }
        off = off + e.hdr + (size_t)e.nsize;
    }
    bool r = s.HasValidOps();
    __CPROVER_assert(r == expect, "spec: a script is accepted for execution exactly when it decodes completely into defined opcodes (<= OP_CHECKSIGADD) with pushes of at most 520 bytes");
    __CPROVER_assert(!r, "canary: accepted script reachable");
    __CPROVER_assert(r, "canary: refused script reachable");
}
// ---- CastToBool and CheckMinimalPush against their definitions
extern "C" void h_casttobool(void) {
    verif_bytes v; __CPROVER_havoc_object(&v); __CPROVER_assume(v.n <= VERIF_ITEM_CAP);
    size_t w = nondet_size();   // witness index of a byte that makes the value true
    bool r = CastToBool(v);
    bool any = false; for (size_t i = 0; i < VERIF_ITEM_CAP; ++i) if (i < v.n && v.s.a[i] != 0 && !(i == v.n - 1 && v.s.a[i] == 0x80)) any = true;
    __CPROVER_assert(r == any, "spec: a stack value is true exactly when some byte is non-zero, not counting a final 0x80 (negative zero)");
    __CPROVER_assert(!(r && v.n == VERIF_ITEM_CAP), "canary: full-length true value reachable");
}
extern "C" void h_checkminimalpush(void) {
    verif_bytes d; __CPROVER_havoc_object(&d);
    // length-only beyond the storage: the rule reads data[0] only for one-byte pushes
    __CPROVER_assume(d.n <= 70000);
    unsigned int op = nondet_uint(); __CPROVER_assume(op <= 0x4e);
    bool r = CheckMinimalPush(d, (opcodetype)op);
    bool e;
    if (d.n == 0) e = (op == 0x00);
    else if (d.n == 1 && d.s.a[0] >= 1 && d.s.a[0] <= 16) e = false;
    else if (d.n == 1 && d.s.a[0] == 0x81) e = false;
    else if (d.n <= 75) e = (op == d.n);
    else if (d.n <= 255) e = (op == 0x4c);
    else if (d.n <= 65535) e = (op == 0x4d);
    else e = true;
    __CPROVER_assert(r == e, "spec: BIP62 rule 3 - a push is minimal exactly when no shorter opcode could have pushed the same bytes");
    __CPROVER_assert(!(r && op == 0x4d), "canary: minimal OP_PUSHDATA2 reachable");
}

// ---- FindAndDelete (legacy signature hashing removes the signature push from the script code): every occurrence of b that
// starts on an operation boundary is removed, nothing else; the number removed is returned.  Scripts <= H_SCRIPT_N bytes.
extern "C" void h_findanddelete(void) {
    CScript s, b; __CPROVER_havoc_object(&s); __CPROVER_havoc_object(&b);
    __CPROVER_assume(s.n <= H_SCRIPT_N && b.n <= 3);
    CScript s0 = s;
    // spec: walk the operations; at each boundary skip all copies of b, then copy one operation (a final undecodable tail is copied verbatim)
    unsigned char out[H_SCRIPT_N]; size_t on = 0; int found = 0; size_t off = 0; bool stop = false;
    if (b.n > 0) {
        for (size_t k = 0; k < H_SCRIPT_N + 1; ++k) {
            if (stop) break;
            for (size_t r = 0; r < H_SCRIPT_N + 1; ++r) {          // remove repeated occurrences at this boundary
                bool m = s0.n - off >= b.n;
                for (size_t i = 0; i < 3; ++i) if (m && i < b.n && s0.s.a[off + i] != b.s.a[i]) m = false;
                if (!m) break;
                off = off + b.n; found = found + 1;
            }
            spec_op e = spec_decode(s0.s.a, s0.n, off);
            size_t take = e.ok ? e.hdr + (size_t)e.nsize : s0.n - off;   // the rest of an undecodable script is kept as it is
            for (size_t i = 0; i < H_SCRIPT_N; ++i) if (i < take) out[on + i] = s0.s.a[off + i];
            on = on + take; off = off + take;
            if (!e.ok) stop = true;
        }
    }
    int r = FindAndDelete(s, b);
    __CPROVER_assert(r == found, "spec: FindAndDelete returns the number of occurrences on operation boundaries");
    if (found == 0) { __CPROVER_assert(s == s0, "spec: without an occurrence the script is unchanged"); }
    else { __CPROVER_assert(s.n == on, "spec: the script shrinks by exactly the removed occurrences");
           for (size_t i = 0; i < H_SCRIPT_N; ++i) if (i < on) __CPROVER_assert(s.s.a[i] == out[i], "spec: all other bytes are kept, in order"); }
    __CPROVER_assert(found != 2, "canary: two occurrences reachable");
}
// ---- output-type recognition used when a --tx/--txin session is set up (C03 fragment): BIP16 / BIP141 script patterns
extern "C" void h_script_patterns(void) {
    CScript s; __CPROVER_havoc_object(&s); __CPROVER_assume(s.n <= H_SCRIPT_N);
    const unsigned char* b = s.s.a; const size_t n = s.n;
    __CPROVER_assert(s.IsPayToScriptHash() == (n == 23 && b[0] == 0xa9 && b[1] == 0x14 && b[22] == 0x87), "spec: P2SH pattern is exactly OP_HASH160 <20 bytes> OP_EQUAL (BIP16)");
    __CPROVER_assert(s.IsPayToWitnessScriptHash() == (n == 34 && b[0] == 0x00 && b[1] == 0x20), "spec: P2WSH pattern is exactly OP_0 <32 bytes> (BIP141)");
    int version = -7; verif_bytes program; __CPROVER_havoc_object(&program); __CPROVER_assume(program.n <= VERIF_ITEM_CAP);
    bool w = s.IsWitnessProgram(version, program);
    bool e = n >= 4 && n <= 42 && (b[0] == 0x00 || (b[0] >= 0x51 && b[0] <= 0x60)) && (size_t)(b[1] + 2) == n;
    __CPROVER_assert(w == e, "spec: a witness program is a version opcode (OP_0, OP_1..OP_16) followed by one direct push of 2..40 bytes that ends the script (BIP141)");
    if (w) {
        __CPROVER_assert(version == (b[0] == 0x00 ? 0 : (int)b[0] - 0x50), "spec: the witness version is the number the version opcode pushes");
        __CPROVER_assert(program.n == n - 2, "spec: the witness program is the pushed payload");
        for (size_t i = 0; i < 40; ++i) if (i + 2 < n) __CPROVER_assert(program.s.a[i] == b[2 + i], "spec: the witness program bytes are the pushed payload, in order");
    } else {
        __CPROVER_assert(version == -7, "frame: a non-witness script leaves the version output untouched");
    }
    __CPROVER_assert(!(w && version == 1 && n == 34), "canary: taproot output (version 1, 32-byte program) reachable");
    __CPROVER_assert(!s.IsPayToScriptHash(), "canary: P2SH pattern reachable");
}
