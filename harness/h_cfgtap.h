// h_cfgtap.h -- contract of the witness-v1 (taproot) set-up in Instance::configure_tx_txin against BIP341 / BIP342 (C03, C05):
// for every witness stack of up to VERIF_STACK_W items and every witness program:
//  * the program must be 32 bytes and the witness non-empty, else the spend is refused;
//  * an annex (last of >= 2 items, first byte 0x50) is removed, its serialization hashed (oracle) and recorded; the annex
//    bookkeeping is marked initialised in every case;
//  * one remaining item: key path - the script is <program> OP_CHECKSIG, version TAPROOT, initial stack = that one item;
//  * otherwise script path: control block = last item, leaf script = the one before; the control block must be 33 + 32m bytes with
//    m <= 128, else refused; the commitment checker is built for exactly (control, program, script) and writes the leaf hash into
//    the execution data; leaf version 0xc0: version TAPSCRIPT, script = leaf script, initial stack = the items below the script,
//    signature budget = serialized size of the WHOLE witness (annex, control block and script included) + 50; other leaf
//    versions are refused by btcdeb (consensus treats them as upgradable; the debugger has nothing to execute).
#pragma once
static bool cfg_bytes_eq(const verif_bytes& a, const verif_bytes& b) { if (a.n != b.n) return false; for (size_t i = 0; i < VERIF_ITEM_CAP; ++i) if (i < a.n && a.s.a[i] != b.s.a[i]) return false; return true; }
extern "C" void h_cfg_taproot(void) {
    verif_stack ws; __CPROVER_havoc_object(&ws); ws.base = 0; __CPROVER_assume(ws.n <= VERIF_STACK_W);
    for (size_t i = 0; i < VERIF_STACK_W; ++i) __CPROVER_assume(ws.w[i].n <= 5000);      // items longer than the storage are modelled by length and leading bytes
    verif_bytes program; __CPROVER_havoc_object(&program); __CPROVER_assume(program.n <= VERIF_ITEM_CAP);
    ScriptExecutionData ed; CScript validation, spk; SigVersion sigver = SigVersion::WITNESS_V0; bool has_preamble = false; size_t w2s = ws.n; TaprootCommitmentEnv* tce = 0;
    g_hw_calls = 0; g_ser_calls = 0; g_tce_calls = 0; for (int i = 0; i < 32; ++i) g_hw_digest[i] = nondet_uchar();
    g_ser_result = nondet_size(); __CPROVER_assume(g_ser_result <= 4000000);
    // ---- what BIP341 / BIP342 prescribe
    const size_t n = ws.n;
    bool refuse = (program.n != 32) || n == 0;
    bool annex = false; size_t m = n;
    if (!refuse) { if (n >= 2 && ws.sel(n - 1).n > 0 && ws.sel(n - 1).s.a[0] == 0x50) { annex = true; m = n - 1; } }
    const bool keypath = !refuse && m == 1;
    size_t ctl_n = 0; unsigned char ctl0 = 0; size_t scr_n = 0;
    if (!refuse && !keypath) { ctl_n = ws.sel(m - 1).n; ctl0 = ws.sel(m - 1).s.a[0]; scr_n = ws.sel(m - 2).n; }
    // storage bound of the model: the leaf script fits the script storage
    __CPROVER_assume(scr_n <= VERIF_SCRIPT_CAP);
    bool ctl_ok = ctl_n >= 33 && ctl_n <= 33 + 32 * 128 && (ctl_n - 33) % 32 == 0;
    bool refuse2 = !refuse && !keypath && (!ctl_ok || (ctl0 & 0xfe) != 0xc0);
    verif_expect_throw = 0;
    bool r = verif_cfg_taproot(ws, program, ed, validation, spk, sigver, has_preamble, w2s, tce);
    __CPROVER_assert(r == !(refuse || refuse2), "spec: the set-up is refused exactly for a program that is not 32 bytes, an empty witness, a control block that is not 33+32m bytes (m <= 128) or an unknown leaf version");
    __CPROVER_assert(r, "canary: refused set-up reachable");
    __CPROVER_assert(!(r && keypath), "canary: key path reachable");
    __CPROVER_assert(!(r && !keypath && annex), "canary: script path with annex reachable");
    __CPROVER_assert(!(r && !keypath && ctl_n == 33 + 32 * 128), "canary: the longest control block (128 nodes) is accepted");
    if (!refuse) {
        __CPROVER_assert(ed.m_annex_init && ed.m_annex_present == annex, "spec: the annex bookkeeping is initialised and says whether the last of at least two witness items starts with 0x50");
        if (annex) {
            bool same = true; for (int i = 0; i < 32; ++i) if (ed.m_annex_hash.m_data[i] != g_hw_digest[i]) same = false;
            __CPROVER_assert(g_hw_calls == 1 && cfg_bytes_eq(g_hw_arg, ws.sel(n - 1)) && same, "spec: the annex hash is SHA-256 of the serialized annex item");
        } else __CPROVER_assert(g_hw_calls == 0, "spec: nothing is hashed when there is no annex");
    }
    if (r && keypath) {
        bool vs = validation.n == 34 && validation.s.a[0] == 0x20 && validation.s.a[33] == 0xac;
        for (size_t i = 0; i < 32; ++i) if (validation.s.a[1 + i] != program.s.a[i]) vs = false;
        __CPROVER_assert(vs, "spec: key path - the executed script is <32-byte program> OP_CHECKSIG");
        __CPROVER_assert(sigver == SigVersion::TAPROOT && has_preamble, "spec: key path - signature version TAPROOT");
        __CPROVER_assert(w2s == 1, "spec: key path - the initial stack is the single remaining witness item (an annex is not passed to the script)");
        __CPROVER_assert(g_tce_calls == 0 && g_ser_calls == 0, "spec: key path - no commitment check and no tapscript budget");
    }
    if (r && !keypath) {
        __CPROVER_assert(g_tce_calls == 1 && tce == &g_tce_obj && cfg_bytes_eq(g_tce_control, ws.sel(m - 1)) && cfg_bytes_eq(g_tce_program, program) && g_tce_out == &ed.m_tapleaf_hash && ed.m_tapleaf_hash_init,
                         "spec: script path - the commitment check is set up for exactly (control block = last item, program, leaf script) and delivers the leaf hash into the execution data");
        bool ss = g_tce_script.n == scr_n && validation.n == scr_n;
        for (size_t i = 0; i < VERIF_SCRIPT_CAP; ++i) if (i < scr_n && i < VERIF_ITEM_CAP && (g_tce_script.s.a[i] != ws.sel(m - 2).s.a[i] || validation.s.a[i] != ws.sel(m - 2).s.a[i])) ss = false;
        __CPROVER_assert(ss, "spec: script path - the leaf script committed to and the script executed are the witness item below the control block");
        __CPROVER_assert(sigver == SigVersion::TAPSCRIPT, "spec: script path with leaf version 0xc0 - signature version TAPSCRIPT");
        __CPROVER_assert(w2s == m - 2, "spec: script path - the initial stack is the witness without leaf script, control block and annex");
        bool whole = g_ser_calls == 1 && g_ser_arg.n == n && g_ser_arg.base == 0;
        for (size_t i = 0; i < VERIF_STACK_W; ++i) if (i < n && !cfg_bytes_eq(g_ser_arg.w[i], ws.w[i])) whole = false;
        __CPROVER_assert(whole, "spec: the tapscript signature budget is computed from the WHOLE witness stack (annex, control block and script included)");
        __CPROVER_assert(ed.m_validation_weight_left_init && ed.m_validation_weight_left == (int64_t)g_ser_result + 50, "spec: ... as its serialized size + 50");
    }
}
// ---- the legacy branch (no witness): scriptSig first, then scriptPubKey, under the legacy signature rules - whatever signature
// version an earlier stage assumed (parse_transaction pre-selects the segwit rules for any transaction that carries a witness)
extern "C" void h_cfg_legacy(void) {
    CScript sig, spk, script, succ; __CPROVER_havoc_object(&sig); __CPROVER_havoc_object(&spk); __CPROVER_havoc_object(&script); __CPROVER_havoc_object(&succ);
    __CPROVER_assume(sig.n <= VERIF_SCRIPT_CAP && spk.n <= VERIF_SCRIPT_CAP && script.n <= VERIF_SCRIPT_CAP && succ.n <= VERIF_SCRIPT_CAP);
    SigVersion sv = (SigVersion)nondet_uint();
    verif_cfg_legacy(sig, spk, sv, script, succ);
    __CPROVER_assert(sv == SigVersion::BASE, "spec: an input without witness is validated under the legacy signature rules (BASE), also inside a transaction whose other inputs carry witnesses");
    bool a = script.n == sig.n, b = succ.n == spk.n;
    for (size_t i = 0; i < VERIF_SCRIPT_CAP; ++i) { if (i < sig.n && script.s.a[i] != sig.s.a[i]) a = false; if (i < spk.n && succ.s.a[i] != spk.s.a[i]) b = false; }
    __CPROVER_assert(a && b, "spec: the session runs the scriptSig first and the scriptPubKey of the spent output after it");
    __CPROVER_assert(sig.n != 0, "canary: empty scriptSig reachable");
}
