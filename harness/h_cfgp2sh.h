// h_cfgp2sh.h -- contract of the P2SH-embedded branch of the witness set-up (properties C15 / C03): for every decoding of scriptSig and
// scriptPubKey (GetOp as oracle: any success pattern, any opcodes, pushes of any length) the branch ends without a failed assertion, and
// it accepts only when the scriptSig starts with a non-empty push, the scriptPubKey reads OP_HASH160 <20-byte push>, and the HASH160 of
// the pushed program equals that push.
#pragma once
extern "C" void h_cfg_p2sh_embedded(void) {
    CScript sig, spk, validation; sig.nbytes = nondet_size(); spk.nbytes = nondet_size(); __CPROVER_assume(sig.nbytes >= 1 && sig.nbytes <= 10000 && spk.nbytes <= 10000);
    for (int k = 0; k < 4; ++k) { g_getop_ok[k] = nondet_bool(); g_getop_opc[k] = (int)(nondet_uint() % 256u); verif_bytes p; __CPROVER_havoc_object(&p); __CPROVER_assume(p.n <= VERIF_ITEM_CAP); g_getop_push[k] = p; }
    { verif_bytes h; __CPROVER_havoc_object(&h); h.n = 20; g_h160_out = h; }
    g_getop_calls = 0; g_h160_calls = 0;
    Value hashsrc; std::verif_sstr source; opcodetype opcode = OP_0; verif_bytes pushval;
    bool r = verif_cfg_p2sh_embedded(sig, spk, validation, hashsrc, source, opcode, pushval);
    bool same = g_getop_push[2].n == 20; for (size_t i = 0; i < 20; ++i) if (g_getop_push[2].s.a[i] != g_h160_out.s.a[i]) same = false;
    const bool expect = g_getop_ok[0] && g_getop_push[0].n > 0 && g_getop_ok[1] && g_getop_opc[1] == 0xa9 && g_getop_ok[2] && same;
    __CPROVER_assert(r == expect, "spec: the embedded program is accepted exactly when scriptSig starts with a non-empty push, scriptPubKey reads OP_HASH160 <20-byte push> and the push is the HASH160 of the program");
    __CPROVER_assert(!r || (g_getop_script[0] == &sig && g_getop_script[1] == &spk && g_getop_script[2] == &spk && g_h160_calls == 1 && validation.nbytes == g_getop_push[0].n), "spec: the program is the first push of the scriptSig; the hash is read from the scriptPubKey");
    __CPROVER_assert(!r, "canary: accepted embedding reachable");
    __CPROVER_assert(!(g_getop_ok[2] && g_getop_push[2].n == 5), "canary: a 5-byte hash push is reachable");
}
