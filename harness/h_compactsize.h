// h_compactsize.h -- contracts of the compact-size codec (serialize.h), property C13 (codec leaves).
#pragma once
// spec: Bitcoin's CompactSize: < 253: one byte; <= 0xffff: 0xfd + 2 bytes LE; <= 0xffffffff: 0xfe + 4 bytes LE; else 0xff + 8 bytes LE
static size_t spec_cs_len(uint64_t n) { if (n < 253) return 1; if (n <= 0xffffULL) return 3; if (n <= 0xffffffffULL) return 5; return 9; }
extern "C" void h_cs_write(void) {
    uint64_t n = nondet_size(); verif_stream s; s.n = 0; s.rd = 0;
    verif_expect_throw = 0;
    WriteCompactSize(s, n);
    size_t L = spec_cs_len(n);
    __CPROVER_assert(s.n == L && GetSizeOfCompactSize(n) == L, "spec: the encoded length is 1 / 3 / 5 / 9 bytes by magnitude");
    uint64_t v = 0; for (size_t i = 1; i < 9; ++i) if (i < L) v |= (uint64_t)s.b[i] << (8 * (i - 1));
    __CPROVER_assert(L == 1 ? s.b[0] == n : (s.b[0] == (L == 3 ? 0xfd : (L == 5 ? 0xfe : 0xff)) && v == n), "spec: marker byte and little-endian payload encode the value");
    // decode what was written
    if (n <= MAX_SIZE) { uint64_t r = ReadCompactSize(s, true); __CPROVER_assert(r == n && s.rd == s.n, "spec: decoding an encoded size returns it and consumes exactly its bytes"); }
    __CPROVER_assert(L != 9, "canary: 9-byte form reachable");
}
extern "C" void h_cs_read(void) {
    verif_stream s; for (int i = 0; i < 16; ++i) s.b[i] = nondet_uchar(); s.n = nondet_size(); __CPROVER_assume(s.n <= 12); s.rd = 0;
    bool range_check = nondet_bool();
    // spec verdict
    bool fail = false; uint64_t val = 0; size_t used = 0;
    if (s.n < 1) fail = true;
    else { unsigned char m = s.b[0]; size_t L = m < 253 ? 1 : (m == 253 ? 3 : (m == 254 ? 5 : 9));
        if (s.n < L) fail = true;
        else { used = L; if (L == 1) val = m; else { for (size_t i = 1; i < 9; ++i) if (i < L) val |= (uint64_t)s.b[i] << (8 * (i - 1)); }
            if (L > 1 && spec_cs_len(val) != L) fail = true;                      // not the shortest form: non-canonical
            if (range_check && val > 0x02000000ULL) fail = true; } }                // larger than MAX_SIZE
    verif_expect_throw = fail ? VT_IOS_FAILURE : VT_NONE;
    __CPROVER_assert(!fail, "canary: rejected encoding reachable");
    uint64_t r = ReadCompactSize(s, range_check);
    __CPROVER_assert(!fail, "spec: truncated, non-canonical or oversized encodings are rejected, never partially accepted");
    __CPROVER_assert(r == val && s.rd == used, "spec: a canonical encoding decodes to its value and consumes exactly its bytes");
    __CPROVER_assert(used != 5, "canary: 5-byte form accepted");
}
