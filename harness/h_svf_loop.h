// h_svf_loop.h -- the --modify-flags parser as a LOOP CONTRACT (property C09), for flag lists of every length.
//
// Loop invariant Inv(i) of `for (size_t i = 0; mod[i-(i>0)]; i++)` in svf_parse_flags:
//     j <= 127, buf[0..j) is the part of the current item read so far (no ',' and no NUL in it),
//     in_flags is the fold of all complete items before it, and i == 0 implies j == 0.
// h_svf_loop_step : from an ARBITRARY state satisfying Inv(i) and the loop condition, one execution of the real loop body
//                   either rejects the list exactly where the rules prescribe, or re-establishes Inv(i+1) with
//                     - an ordinary character appended to the item (flags untouched, no table lookup), or
//                     - at ',' / end of list: exactly one lookup of exactly the item's name, the flag set updated by
//                       `| f` for '+' and `& ~f` for '-', and the item buffer restarted.
// h_svf_loop_init : the declarations establish Inv(0);  h_svf_loop_exit: when the condition fails every item has been
//                   folded (j == 0) and the function returns in_flags (checked by the slicer: the statement after the loop).
// By induction over i (the Hoare loop rule; the only step not checked by CBMC) the function returns, for a list of any length,
// the starting set with each +NAME added and each -NAME removed in order (the empty list: the starting set), and rejects lists
// with a missing sign, an unknown name, an empty item or an item of more than 126 characters after the sign.
#pragma once
int verif_expect_throw; int verif_thrown; int verif_expect_exit;
extern "C" void h_svf_loop_step(void) {
    // arbitrary loop state
    size_t i = nondet_size(); __CPROVER_assume(i <= 4000000000UL);
    mod.at = i; mod.prev = (char)nondet_uchar(); mod.cur = (char)nondet_uchar();
    for (size_t k = 0; k < 128; ++k) buf[k] = (char)nondet_uchar();
    j = nondet_size(); in_flags = nondet_uint(); adding = nondet_bool();
    __CPROVER_assume(verif_loop_cond(i));                                // the loop is entered
    // Inv(i)
    __CPROVER_assume(j <= 127 && (i != 0 || j == 0) && j <= i);
    for (size_t k = 0; k < 127; ++k) if (k < j) __CPROVER_assume(buf[k] != 0 && buf[k] != ',');
    // snapshot
    char buf0[128]; for (size_t k = 0; k < 128; ++k) buf0[k] = buf[k];
    const size_t j0 = j; const unsigned int flags0 = in_flags; const char cur = mod.cur;
    g_getflag_calls = 0; g_getflag_ret = nondet_uint();
    const bool separator = (cur == 0 || cur == ',');
    // what the rules prescribe for this iteration
    bool reject;
    if (!separator) reject = (j0 >= 127);                                  // item longer than the 127 characters the buffer holds
    else reject = (j0 == 0) || (buf0[0] != '+' && buf0[0] != '-') || g_getflag_ret == 0;   // empty item, missing sign, unknown name
    verif_expect_exit = reject ? 1 : 0;
    verif_loop_body(i);
    __CPROVER_assert(!reject, "spec: a missing sign, an unknown name, an empty item or an over-long item rejects the list (parser must exit)");
    __CPROVER_assert(reject, "canary: an iteration that continues is reachable");
    __CPROVER_assert(separator, "canary: an ordinary character is reachable");
    __CPROVER_assert(!(separator && buf0[0] == '-'), "canary: a removal is reachable");
    if (!separator) {
        __CPROVER_assert(j == j0 + 1 && buf[j0] == cur, "inv: an ordinary character is appended to the current item");
        bool kept = true; for (size_t k = 0; k < 127; ++k) if (k < j0 && buf[k] != buf0[k]) kept = false;
        __CPROVER_assert(kept, "inv: the characters of the item read so far are kept");
        __CPROVER_assert(in_flags == flags0 && g_getflag_calls == 0, "inv: inside an item the flag set is untouched and no name is looked up");
    } else {
        __CPROVER_assert(g_getflag_calls == 1, "spec: each item is looked up exactly once");
        bool same = (g_getflag_len == j0 - 1); for (size_t k = 0; k < 127; ++k) if (k + 1 < j0 && g_getflag_arg[k] != buf0[k + 1]) same = false;
        __CPROVER_assert(same, "spec: the name looked up is exactly the item without its sign");
        unsigned int expect = flags0;
        if (buf0[0] == '+') expect = flags0 | g_getflag_ret; else expect = flags0 & ~g_getflag_ret;
        __CPROVER_assert(in_flags == expect, "spec: +NAME adds exactly the flag of NAME, -NAME removes exactly it, every other flag keeps its value");
        __CPROVER_assert(j == 0, "inv: the item buffer restarts after a separator");
    }
    __CPROVER_assert(j <= 127 && j <= i + 1, "inv: the item length stays within the buffer (Inv(i+1))");
}
extern "C" void h_svf_loop_init(void) {
    // file-scope initial values are those of the sliced declarations (`size_t j = 0;`), the loop starts at i = 0
    __CPROVER_assert(j == 0, "inv: the loop starts with an empty item (Inv(0))");
    mod.at = 0; mod.prev = (char)nondet_uchar(); mod.cur = (char)nondet_uchar();
    __CPROVER_assert(verif_loop_cond(0) == (mod.cur != 0), "inv: the first iteration runs exactly when the list is not empty (an empty list leaves the set as given)");
    __CPROVER_assert(mod.cur != 0, "canary: the empty list is reachable");
}
extern "C" void h_svf_loop_exit(void) {
    // the condition fails exactly when the previous character was the terminating NUL, i.e. the last iteration handled a separator
    size_t i = nondet_size(); __CPROVER_assume(i <= 4000000000UL);
    mod.at = i; mod.prev = (char)nondet_uchar(); mod.cur = (char)nondet_uchar();
    __CPROVER_assume(!verif_loop_cond(i));
    __CPROVER_assert((i == 0 && mod.cur == 0) || (i > 0 && mod.prev == 0), "inv: the loop ends either at once for the empty list or exactly after the iteration that handled the terminating NUL as a separator (so every item has been folded)");
    __CPROVER_assert(i == 0, "canary: loop exit reachable");
}
