// h_hvo_loop.h -- CScript::HasValidOps (the refusal rule of parse_script) as a LOOP CONTRACT, for scripts of every length.
// Invariant Inv: begin() <= it <= end() and every operation before `it` decoded completely into a defined opcode with a push of
// at most 520 bytes.  h_hvo_loop_step: from an arbitrary position satisfying Inv and the loop condition, one execution of the
// real loop body decodes exactly the operation at `it` (one GetScriptOp call, contract of leaf_getscriptop*), answers `false`
// exactly when that operation is truncated, above OP_CHECKSIGADD or pushes more than 520 bytes, and otherwise moves `it` to
// the start of the next operation (Inv again).  h_hvo_loop_init / _exit: the loop starts at begin(); it ends only with
// it == end(), where the function answers `true` (statement after the loop, checked by the slicer).  By induction over the
// operations (Hoare loop rule, the one step not checked by CBMC): accepted iff the script decodes completely into defined
// opcodes with pushes of at most 520 bytes.
#pragma once
static void hvo_any_script(CScript& s) {
    size_t len = nondet_size(); __CPROVER_assume(len <= 100000UL);
    s.b = (const unsigned char*)__CPROVER_allocate(len + 1, 0); s.n = len;
}
extern "C" void h_hvo_loop_step(void) {
    CScript s; hvo_any_script(s);
    size_t off = nondet_size(); __CPROVER_assume(off <= s.n);
    CScript::const_iterator it = s.b + off;
    __CPROVER_assume(s.verif_loop_cond(it));
    // contract of the decoder for the operation at `it`: arbitrary verdict; on success 1 <= advance <= bytes left, opcode a byte,
    // push size < advance (payload inside the operation) and 0 for non-push opcodes
    g_dec_ok = nondet_bool(); g_dec_op = nondet_uint(); g_dec_adv = nondet_size(); g_dec_size = nondet_size(); g_dec_calls = 0;
    __CPROVER_assume(g_dec_op <= 0xff && g_dec_adv >= 1 && g_dec_adv <= s.n - off && g_dec_size < g_dec_adv && (g_dec_op <= 0x4e || g_dec_size == 0));
    const bool bad = !g_dec_ok || g_dec_op > 0xba || g_dec_size > 520;
    bool ret = true; int left = s.verif_loop_body(it, ret);
    __CPROVER_assert(g_dec_calls == 1 && g_dec_at == s.b + off, "spec: each iteration decodes exactly the operation at the current position");
    __CPROVER_assert((left == 1) == bad, "spec: the scan stops exactly at an operation that is truncated, above OP_CHECKSIGADD or pushes more than 520 bytes");
    __CPROVER_assert(left != 1 || ret == false, "spec: ... and then the script is refused");
    __CPROVER_assert(left == 1 || it == s.b + off + g_dec_adv, "inv: otherwise the position moves to the start of the next operation");
    __CPROVER_assert(left == 1 || (it >= s.b && it <= s.b + s.n), "inv: the position stays inside the script (Inv)");
    __CPROVER_assert(left != 1, "canary: refusal reachable");
    __CPROVER_assert(left == 1, "canary: continuation reachable");
    __CPROVER_assert(!(left == 0 && g_dec_size == 520), "canary: a 520-byte push is accepted");
}
extern "C" void h_hvo_loop_init(void) {
    CScript s; hvo_any_script(s);
    __CPROVER_assert(s.verif_loop_init() == s.b, "inv: the scan starts at the first byte of the script (Inv at begin())");
    __CPROVER_assert(s.n != 0, "canary: empty script reachable");
}
extern "C" void h_hvo_loop_exit(void) {
    CScript s; hvo_any_script(s);
    size_t off = nondet_size(); __CPROVER_assume(off <= s.n);             // Inv: begin() <= it <= end()
    CScript::const_iterator it = s.b + off;
    __CPROVER_assume(!s.verif_loop_cond(it));
    __CPROVER_assert(it == s.b + s.n, "inv: the scan ends only at the end of the script, i.e. when every operation has been decoded and accepted");
    __CPROVER_assert(s.n != 0, "canary: loop exit reachable for the empty script");
}
