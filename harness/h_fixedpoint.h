// h_fixedpoint.h -- contract of ParseFixedPoint(val, 8, &out) (util/strencodings.cpp), the conversion of --tx amount
// prefixes to satoshis (property C13): for a decimal string with H_PF_INT integer digits and H_PF_FRAC fractional digits
// (case split; the digits themselves are symbolic) the result is exactly value * 10^8.
#pragma once
#ifndef H_PF_INT
#define H_PF_INT 1
#endif
#ifndef H_PF_FRAC
#define H_PF_FRAC 0
#endif
extern "C" void h_fixedpoint(void) {
    char buf[24]; size_t n = 0; bool neg = nondet_bool();
    unsigned char di[H_PF_INT + 1], df[H_PF_FRAC + 1];
    for (int i = 0; i < H_PF_INT; ++i) { di[i] = nondet_uchar(); __CPROVER_assume(di[i] <= 9); }
    for (int i = 0; i < H_PF_FRAC; ++i) { df[i] = nondet_uchar(); __CPROVER_assume(df[i] <= 9); }
    __CPROVER_assume(H_PF_INT == 1 || di[0] != 0);        // no leading zeros (those are a separate, rejected, form)
    if (neg) buf[n++] = '-';
    for (int i = 0; i < H_PF_INT; ++i) buf[n++] = (char)('0' + di[i]);
    if (H_PF_FRAC > 0) { buf[n++] = '.'; for (int i = 0; i < H_PF_FRAC; ++i) buf[n++] = (char)('0' + df[i]); }
    buf[n] = 0;
    int64_t expect = 0;                                      // value * 10^8 by positional notation (multiplications by the constant ten)
    for (int i = 0; i < H_PF_INT; ++i) expect = expect * 10 + di[i];
    for (int j = 0; j < 8; ++j) expect = expect * 10 + (j < H_PF_FRAC ? df[j] : 0);
    if (neg) expect = -expect;
    int64_t out = 12345; verif_expect_throw = 0;
    bool ok = ParseFixedPoint(std::string_view(buf, n), 8, &out);
    __CPROVER_assert(ok, "spec: a well-formed decimal amount with at most 8 fractional digits is accepted");
    __CPROVER_assert(out == expect, "spec: the amount is converted to satoshis exactly (value * 10^8)");
    __CPROVER_assert(!(neg && di[H_PF_INT - 1] == 0), "canary: negative amount with a zero digit reachable");
}
// malformed amounts are rejected and leave the output untouched
static void h_fp_reject(const char* s, size_t n) {
    int64_t out = 12345; verif_expect_throw = 0;
    bool ok = ParseFixedPoint(std::string_view(s, n), 8, &out);
    __CPROVER_assert(!ok && out == 12345, "spec: a malformed amount (empty, lone sign, leading zero, missing digits, more than 8 fractional digits, trailing garbage) is rejected, never partially accepted");
}
extern "C" void h_fixedpoint_reject(void) {
    h_fp_reject("", 0); h_fp_reject("-", 1); h_fp_reject("01", 2); h_fp_reject(".5", 2); h_fp_reject("1.", 2); h_fp_reject("1.123456789", 11);
    h_fp_reject("1x", 2); h_fp_reject("1.5 ", 4); h_fp_reject("+1", 2); h_fp_reject("1e", 2); h_fp_reject("0.000000001", 11); h_fp_reject("1e10", 4);
    int64_t out = 0; bool ok = ParseFixedPoint(std::string_view("0.00000001", 10), 8, &out);
    __CPROVER_assert(!(ok && out == 1), "canary: the smallest representable amount (1 satoshi) is accepted");
}
