// h_bech.h -- contract of the first part of Value::do_bech32dec (property C15: tf / inline functions on adversarial arguments): for every
// verdict of the bech32 decoder and every data part - the empty one included - the witness version symbol is read inside the data
// (no out-of-range access); an invalid string, and a string without data symbols, end the transform with a diagnostic.
#pragma once
extern "C" void h_bech32dec_head(void) {
    unsigned int enc = nondet_uint() % 3u; g_bech_result.encoding = (bech32::Encoding)enc;
    { verif_bytes d; __CPROVER_havoc_object(&d); __CPROVER_assume(d.n <= VERIF_ITEM_CAP); g_bech_result.data = d; }
    g_bech_calls = 0;
    std::verif_sstr s;
    int v = verif_bech32dec_head(s);
    __CPROVER_assert(g_bech_calls == 1, "spec: the string is decoded once");
    __CPROVER_assert((v >= 0) == (enc != 0 && g_bech_result.data.n > 0), "spec: a version symbol is produced exactly for a valid string that has data symbols");
    __CPROVER_assert(v < 0 || v == (int)g_bech_result.data.s.a[0], "spec: the witness version is the first data symbol");
    __CPROVER_assert(!(enc != 0 && g_bech_result.data.n == 0), "canary: a valid string without data symbols is reachable");
    __CPROVER_assert(v < 0, "canary: a decoded version is reachable");
}
