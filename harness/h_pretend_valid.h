// h_pretend_valid.h -- contract of the --pretend-valid pair-list parser (property C11): "S:P" / "S1:P1,S2:P2" register exactly
// the listed pairs (signature -> key, key listed); a list with a missing or a doubled colon is rejected.
#pragma once
#ifndef H_PV_FORM
#define H_PV_FORM 0
#endif
static size_t h_sym(char* dst, size_t at, size_t len) { for (size_t i = 0; i < len; ++i) { char c = (char)nondet_uchar(); __CPROVER_assume(c != 0 && c != ',' && c != ':'); dst[at + i] = c; } return at + len; }
extern "C" void h_pretend_valid(void) {
    char e[32]; size_t n = 0;
    // forms: 0 "S:P"   1 "S1:P1,S2:P2"   2 "P" (no colon)   3 "S:P:Q" (doubled colon)   4 "S:P,Q" (second item without colon)   5 "" (empty)
    if (H_PV_FORM == 0) { n = h_sym(e, n, 3); e[n++] = ':'; n = h_sym(e, n, 4); }
    if (H_PV_FORM == 1) { n = h_sym(e, n, 2); e[n++] = ':'; n = h_sym(e, n, 3); e[n++] = ','; n = h_sym(e, n, 2); e[n++] = ':'; n = h_sym(e, n, 3); }
    if (H_PV_FORM == 2) { n = h_sym(e, n, 4); }
    if (H_PV_FORM == 3) { n = h_sym(e, n, 2); e[n++] = ':'; n = h_sym(e, n, 2); e[n++] = ':'; n = h_sym(e, n, 2); }
    if (H_PV_FORM == 4) { n = h_sym(e, n, 2); e[n++] = ':'; n = h_sym(e, n, 2); e[n++] = ','; n = h_sym(e, n, 3); }
    e[n] = 0;
    for (int k = 0; k < 4; ++k) { __CPROVER_havoc_object(&g_val_bytes[k]); __CPROVER_assume(g_val_bytes[k].n <= VERIF_ITEM_CAP); }
    g_val_calls = 0; g_map_sets = 0; g_set_ins = 0; g_dup_live = 0;
    Instance inst;
    bool r = inst.parse_pretend_valid_expr(e);
    __CPROVER_assert(g_dup_live == 0, "spec: every temporary copy is released");
    if (H_PV_FORM == 0) {
        __CPROVER_assert(r && g_map_sets == 1 && g_set_ins == 1, "spec: one pair registers exactly one signature->key entry and one listed key");
        __CPROVER_assert(g_map_key[0] == g_val_bytes[0] && g_map_val[0] == g_val_bytes[1] && g_set_key[0] == g_val_bytes[1], "spec: the entry maps the value of the text before the colon to the value of the text after it");
        __CPROVER_assert(g_val_text[0][3] == 0 && g_val_text[0][0] == e[0] && g_val_text[0][2] == e[2] && g_val_text[1][4] == 0 && g_val_text[1][0] == e[4] && g_val_text[1][3] == e[7], "spec: signature and key expressions are evaluated on exactly their substrings");
    } else if (H_PV_FORM == 1) {
        __CPROVER_assert(r && g_map_sets == 2 && g_set_ins == 2, "spec: two pairs register exactly two entries");
        __CPROVER_assert(g_map_key[0] == g_val_bytes[0] && g_map_val[0] == g_val_bytes[1] && g_map_key[1] == g_val_bytes[2] && g_map_val[1] == g_val_bytes[3] && g_set_key[0] == g_val_bytes[1] && g_set_key[1] == g_val_bytes[3], "spec: pairs are registered in order, each signature with its own key");
    } else if (H_PV_FORM == 5) {
        __CPROVER_assert(r && g_map_sets == 0 && g_set_ins == 0, "spec: an empty list registers nothing");
    } else {
        __CPROVER_assert(!r, "spec: a pair list with a missing or doubled colon is rejected");
        __CPROVER_assert(H_PV_FORM == 4 || (g_map_sets == 0 && g_set_ins == 0), "spec: a rejected single item registers nothing");
    }
    __CPROVER_assert(0, "canary: the parser returned");
}
