// h_vsig.h -- contract of the argument checks of Value::verify_sig (property C15: "assert-backed constructors fed user lengths"): for
// every value type, every outcome of the push extraction and every combination of argument lengths the checks end without a failed
// assertion, and the verification is reached only with exactly three arguments the first of which - the sighash - is 32 bytes.
#pragma once
extern "C" void h_verify_sig_head(void) {
    Value v; v.type = (int)(nondet_uint() % 4u);
    g_extract_ok = nondet_bool();
    { verif_stack s; __CPROVER_havoc_object(&s); s.base = 0; __CPROVER_assume(s.n <= VERIF_STACK_W); for (size_t i = 0; i < VERIF_STACK_W; ++i) __CPROVER_assume(s.w[i].n <= VERIF_ITEM_CAP); g_extract_vals = s; }
    g_vsig_head_done = 0;
    v.verify_sig_head(nondet_bool());
    const bool expect = v.type == Value::T_DATA && g_extract_ok && g_extract_vals.n == 3 && g_extract_vals.w[0].n == 32;
    __CPROVER_assert((g_vsig_head_done == 1) == expect, "spec: signature verification is reached exactly for a data value holding three pushes whose first, the sighash, is 32 bytes");
    __CPROVER_assert(!(g_extract_ok && g_extract_vals.n == 3 && g_extract_vals.w[0].n == 64), "canary: a 64-byte first argument is reachable");
    __CPROVER_assert(g_vsig_head_done == 0, "canary: accepted arguments reachable");
}
