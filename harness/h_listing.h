// h_listing.h -- memory safety of one listing line built by main() (property C15; listing text itself: C12, not claimed):
// for every operation of a script that passed the refusal rule (push of at most 520 bytes, opcode name of at most 40
// characters) and every line number, the line buffer is never written outside its 1024 bytes and the line is stored once.
#pragma once
extern "C" void h_listing_line(void) {
    verif_bytes push; __CPROVER_havoc_object(&push); __CPROVER_assume(push.n <= 520);      // by length: the hex text is 2 characters per byte
    int i = nondet_int(); __CPROVER_assume(i >= 0 && i <= 20000);
    g_index_digits = (i < 10000) ? 6 : 7;                                                    // "#%04d " : four digits up to 9999, five above
    g_opname_len = nondet_size(); __CPROVER_assume(g_opname_len >= 1 && g_opname_len <= 40);
    char* lines[1]; lines[0] = 0; int idx = 0;
    g_snprintf_calls = 0; g_strdup_calls = 0;
    opcodetype op = nondet_int();
    verif_listing_line(idx, lines, op, push);
    __CPROVER_assert(idx == 1 && g_strdup_calls == 1 && lines[0] == g_dup_obj, "spec: each operation contributes exactly one stored listing line");
    __CPROVER_assert(push.n != 520, "canary: a 520-byte push is reachable");
    __CPROVER_assert(push.n != 0, "canary: a non-push operation is reachable");
}
