// h_addrspk.h -- contract of Value::do_addr_to_spk (property C15: tf / inline functions on adversarial arguments): for EVERY outcome of
// the base58check decoder - including the empty value left by a malformed address - the transform terminates without violating a
// container precondition; for a decoded payload of version byte + 20-byte hash the result is DUP HASH160 <hash> EQUALVERIFY CHECKSIG.
#pragma once
inline void insert(verif_bytes& a, CScript& b) { a.insert(a.end(), b.begin(), b.end()); }
extern "C" void h_addr_to_spk(void) {
    __CPROVER_havoc_object(&g_b58_result); __CPROVER_assume(g_b58_result.n <= 24);
    g_b58_calls = 0; verif_expect_throw = 0;
    Value v; v.type = 0;
    verif_bytes dec = g_b58_result;
    v.do_addr_to_spk();
    __CPROVER_assert(g_b58_calls == 1, "spec: the address is decoded once");
    if (dec.n == 21) {
        bool ok = v.data.n == 25 && v.data.s.a[0] == 0x76 && v.data.s.a[1] == 0xa9 && v.data.s.a[2] == 0x14 && v.data.s.a[23] == 0x88 && v.data.s.a[24] == 0xac;
        for (size_t i = 0; i < 20; ++i) if (v.data.s.a[3 + i] != dec.s.a[1 + i]) ok = false;
        __CPROVER_assert(ok, "spec: a 21-byte payload (version, 20-byte hash) becomes DUP HASH160 <hash> EQUALVERIFY CHECKSIG");
    }
    __CPROVER_assert(dec.n != 0, "canary: a failed decode (empty value) is reachable");
    __CPROVER_assert(dec.n != 21, "canary: a well-formed address payload is reachable");
}
