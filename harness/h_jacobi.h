// h_jacobi.h -- contract of the argument handling of Value::do_jacobi_symbol (property C15: no uncaught exception, no failed assertion on
// adversarial tf / inline-function arguments): for every value type, extraction outcome and argument lengths the reduction n mod k is
// reached only with 32-byte operands and a non-zero modulus; everything else ends with a diagnostic.
#pragma once
extern "C" void h_jacobi_head(void) {
    SECP256K1_FIELD_SIZE.zero = false;                       // the field size constant is not zero
    Value v; v.type = (int)(nondet_uint() % 4u); { verif_bytes d; __CPROVER_havoc_object(&d); __CPROVER_assume(d.n <= VERIF_ITEM_CAP); v.data = d; }
    g_extract_ok = nondet_bool();
    { verif_stack s; __CPROVER_havoc_object(&s); s.base = 0; __CPROVER_assume(s.n <= VERIF_STACK_W); for (size_t i = 0; i < VERIF_STACK_W; ++i) __CPROVER_assume(s.w[i].n <= VERIF_ITEM_CAP); g_extract_vals = s; }
    g_jacobi_head_done = 0;
    v.jacobi_head();
    bool kzero = true; for (size_t i = 0; i < 32; ++i) if (g_extract_vals.w[1].s.a[i] != 0) kzero = false;
    const bool two = g_extract_ok && g_extract_vals.n == 2 && g_extract_vals.w[0].n == 32 && g_extract_vals.w[1].n == 32 && !kzero;
    const bool one = !g_extract_ok && v.data.n == 32;
    __CPROVER_assert((g_jacobi_head_done == 1) == (v.type == Value::T_DATA && (one || two)), "spec: the symbol is computed exactly for a 32-byte n (modulus = the field size) or a pair of 32-byte n and non-zero k");
    __CPROVER_assert(!(g_extract_ok && g_extract_vals.n == 2 && g_extract_vals.w[1].n == 32 && kzero), "canary: a zero modulus is reachable");
    __CPROVER_assert(g_jacobi_head_done == 0, "canary: accepted arguments reachable");
}
