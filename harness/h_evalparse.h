// h_evalparse.h -- contract of exec's token classification (property C16, parser half, for one token of up to
// VERIF_TOKEN_CAP characters without embedded whitespace): a token is a NUMBER exactly when it is the canonical decimal
// spelling of a non-zero integer; otherwise HEX when it has an even number of hex digits; otherwise an OPCODE NAME (oracle);
// otherwise the command is refused.  The assembled bytes are the minimal number encoding / the length-prefixed push / the opcode byte.
#pragma once
#include "spec_scriptnum.h"
extern "C" void h_evalparse(void) {
    char tok[VERIF_TOKEN_CAP + 2]; size_t n = nondet_size(); __CPROVER_assume(n <= VERIF_TOKEN_CAP);
    for (size_t i = 0; i < VERIF_TOKEN_CAP + 1; ++i) { tok[i] = 0; if (i < n) { char c = (char)nondet_uchar(); __CPROVER_assume(c != 0 && !verif_isspace(c)); tok[i] = c; } }
    char* argv1[1]; argv1[0] = tok;
    CScript out; g_parsed_script = &out; g_getopcode_calls = 0;
    unsigned int ob = nondet_uint(); __CPROVER_assume(ob <= 0xff); g_getopcode_result = (opcodetype)ob;
    // ---- spec classification
    bool is_num = false; long val = 0;
    { size_t i = 0; bool neg = false; if (n > 0 && tok[0] == '-') { neg = true; i = 1; }
      if (i < n && tok[i] >= '1' && tok[i] <= '9') { bool digits = true; long v = 0; for (size_t k = 0; k < VERIF_TOKEN_CAP; ++k) if (k >= i && k < n) { if (!(tok[k] >= '0' && tok[k] <= '9')) digits = false; else v = v * 10 + (tok[k] - '0'); }
        if (digits) { is_num = true; val = neg ? -v : v; } } }
    bool is_hex = (n > 0) && (n % 2 == 0);
    for (size_t k = 0; k < VERIF_TOKEN_CAP; ++k) if (k < n) { char c = tok[k]; if (!((c >= '0' && c <= '9') || (c >= 'a' && c <= 'f') || (c >= 'A' && c <= 'F'))) is_hex = false; }
    verif_expect_throw = 0;
    bool ok = verif_eval_parse(1, argv1);
    if (n == 0) { __CPROVER_assert(ok && out.n == 0, "spec: an empty token is ignored"); return; }
    if (is_num) {
        __CPROVER_assert(ok && g_getopcode_calls == 0, "spec: the canonical decimal spelling of a non-zero integer is a number");
        if (val == -1 || (val >= 1 && val <= 16)) __CPROVER_assert(out.n == 1 && out.s.a[0] == (unsigned char)(0x50 + val), "spec: small numbers are assembled as OP_1NEGATE / OP_1..OP_16");
        else __CPROVER_assert(out.n >= 2 && out.s.a[0] == out.n - 1 && spec_num_minimal(out.s.a + 1, out.n - 1) && spec_num_value(out.s.a + 1, out.n - 1) == val, "spec: other numbers are assembled as the push of their minimal script-number encoding");
    } else if (is_hex) {
        __CPROVER_assert(ok && g_getopcode_calls == 0 && out.n == 1 + n / 2 && out.s.a[0] == n / 2, "spec: an even number of hex digits that is not a canonical number is a data push of those bytes");
        for (size_t k = 0; k < VERIF_TOKEN_CAP / 2; ++k) if (k < n / 2) {
            char h = tok[2 * k], l = tok[2 * k + 1];
            unsigned int hv = (h <= '9') ? (unsigned int)(h - '0') : (unsigned int)((h | 0x20) - 'a' + 10), lv = (l <= '9') ? (unsigned int)(l - '0') : (unsigned int)((l | 0x20) - 'a' + 10);
            __CPROVER_assert(out.s.a[1 + k] == (unsigned char)(hv * 16 + lv), "spec: the pushed bytes are the hex digits, high nibble first");
        }
    } else {
        __CPROVER_assert(g_getopcode_calls == 1, "spec: anything else is looked up as an opcode name");
        if (ob == 0xff) __CPROVER_assert(!ok, "spec: an unknown token refuses the whole command");
        else __CPROVER_assert(ok && out.n == 1 && out.s.a[0] == (unsigned char)ob, "spec: an opcode name is assembled as its opcode byte");
    }
    __CPROVER_assert(!is_num, "canary: number token reachable");
    __CPROVER_assert(!(is_hex && !is_num && tok[0] == '0'), "canary: hex token with a leading zero digit reachable");
    __CPROVER_assert(is_num || is_hex, "canary: opcode-name token reachable");
}
