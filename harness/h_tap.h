// h_tap.h -- contracts of the step-by-step taproot commitment check against BIP341 (property C05).
// Tagged SHA-256 and the curve tweak check are oracles: the contract pins WHAT is hashed / checked, in which order.
#pragma once
#ifndef H_TAP_MAXPATH
#define H_TAP_MAXPATH 2
#endif
static void h_fill(verif_bytes& v, size_t n) { __CPROVER_havoc_object(&v); v.n = n; }
static bool h_lex_less(const unsigned char* a, const unsigned char* b) {   // BIP341: byte-wise lexicographic order of two 32-byte strings
    for (int i = 0; i < 32; ++i) { if (a[i] < b[i]) return true; if (a[i] > b[i]) return false; }
    return false;
}
// ---- constructor: leaf hash = H_TapLeaf(leaf_version || compact_size(len(script)) || script); nothing else is hashed
extern "C" void h_tap_ctor(void) {
    verif_bytes control, program; CScript script; uint256 leaf;
    size_t m = nondet_size(); __CPROVER_assume(m <= H_TAP_MAXPATH);
    h_fill(control, 33 + 32 * m); h_fill(program, 32);
    __CPROVER_havoc_object(&script); __CPROVER_assume(script.n <= VERIF_SCRIPT_CAP);
    for (int k = 0; k < 2; ++k) for (int i = 0; i < 32; ++i) g_hout[k][i] = nondet_uchar();
    g_hcalls = 0; g_tweak_calls = 0;
    TaprootCommitmentEnv env(control, program, script, &leaf);
    __CPROVER_assert(g_hcalls == 1 && g_hlog[0].tag == VTAG_TAPLEAF, "spec: the constructor computes exactly one hash, with the TapLeaf tag");
    __CPROVER_assert(g_hlog[0].n == 2 + script.n && g_hlog[0].b[0] == (control.s.a[0] & 0xfe) && g_hlog[0].b[1] == (unsigned char)script.n, "spec: TapLeaf input = leaf version (control byte with the parity bit cleared) || compact size of the script length || script");
    for (size_t i = 0; i < VERIF_SCRIPT_CAP; ++i) if (i < script.n) __CPROVER_assert(g_hlog[0].b[2 + i] == script.s.a[i], "spec: TapLeaf input ends with the script bytes");
    bool keq = true, leq = true, peq = true, qeq = true;
    for (int i = 0; i < 32; ++i) { if (env.m_k.m_data[i] != g_hout[0][i]) keq = false; if (leaf.m_data[i] != g_hout[0][i]) leq = false; if (env.m_p.m_keydata.m_data[i] != control.s.a[1 + i]) peq = false; if (env.m_q.m_keydata.m_data[i] != program.s.a[i]) qeq = false; }
    __CPROVER_assert(keq, "spec: the running hash starts as the TapLeaf hash");
    __CPROVER_assert(leq, "spec: the leaf hash handed to signature hashing is the TapLeaf hash");
    __CPROVER_assert(peq, "spec: the internal key is bytes 1..33 of the control block");
    __CPROVER_assert(qeq, "spec: the output key is the 32-byte witness program");
    __CPROVER_assert(env.m_path_len == (int)m && env.m_i == 0, "spec: path length = (control size - 33) / 32, iteration starts at node 0");
    __CPROVER_assert(g_tweak_calls == 0, "spec: no tweak check during construction");
    __CPROVER_assert(m != H_TAP_MAXPATH, "canary: longest modelled path reachable");
}
// ---- one Iterate() from an ARBITRARY intermediate state (inductive step over the path index)
extern "C" void h_tap_iterate(void) {
    verif_bytes control, program; CScript script; uint256 leaf;
    size_t m = nondet_size(); __CPROVER_assume(m <= H_TAP_MAXPATH);
    h_fill(control, 33 + 32 * m); h_fill(program, 32);
    __CPROVER_havoc_object(&script); __CPROVER_assume(script.n <= VERIF_SCRIPT_CAP);
    g_hcalls = 0;
    TaprootCommitmentEnv env(control, program, script, &leaf);
    // arbitrary reachable state: any index 0..m, any running hash
    int i0 = nondet_int(); __CPROVER_assume(i0 >= 0 && i0 <= (int)m); env.m_i = i0;
    for (int i = 0; i < 32; ++i) env.m_k.m_data[i] = nondet_uchar();
    uint256 k0 = env.m_k; uint256 leaf0 = leaf;
    for (int k = 0; k < 2; ++k) for (int i = 0; i < 32; ++i) g_hout[k][i] = nondet_uchar();
    g_hcalls = 0; g_tweak_calls = 0; g_tweak_ok = nondet_bool();
    TaprootCommitmentEnv::State r = env.Iterate();
    if (i0 < (int)m) {
        const unsigned char* node = control.s.a + 33 + 32 * i0;
        const bool k_first = h_lex_less(k0.m_data, node);
        __CPROVER_assert(r == TaprootCommitmentEnv::State::Processing && env.m_i == i0 + 1, "spec: a path node is consumed and the check continues");
        __CPROVER_assert(g_hcalls == 1 && g_hlog[0].tag == VTAG_TAPBRANCH && g_hlog[0].n == 64, "spec: one TapBranch hash over 64 bytes per path node");
        bool ordered = true;
        for (int i = 0; i < 32; ++i) {
            if (k_first) { if (g_hlog[0].b[i] != k0.m_data[i] || g_hlog[0].b[32 + i] != node[i]) ordered = false; }
            else { if (g_hlog[0].b[i] != node[i] || g_hlog[0].b[32 + i] != k0.m_data[i]) ordered = false; }
        }
        __CPROVER_assert(ordered, "spec: TapBranch input = the two 32-byte values in lexicographic order (smaller first)");
        bool keq = true; for (int i = 0; i < 32; ++i) if (env.m_k.m_data[i] != g_hout[0][i]) keq = false;
        __CPROVER_assert(keq, "spec: the running hash becomes the TapBranch hash");
        __CPROVER_assert(g_tweak_calls == 0, "spec: no tweak check before the path is exhausted");
        __CPROVER_assert(!k_first, "canary: running hash below the node reachable");
        __CPROVER_assert(k_first, "canary: running hash above or equal to the node reachable");
    } else {
        __CPROVER_assert(g_hcalls == 0, "spec: no further hashing once the path is exhausted");
        __CPROVER_assert(g_tweak_calls == 1, "spec: exactly one tweak check at the end of the path");
        bool qe = true, pe = true, re = true;
        for (int i = 0; i < 32; ++i) { if (g_tweak_q.m_data[i] != program.s.a[i]) qe = false; if (g_tweak_p.m_data[i] != control.s.a[1 + i]) pe = false; if (g_tweak_root.m_data[i] != k0.m_data[i]) re = false; }
        __CPROVER_assert(qe && pe && re, "spec: the tweak check is output key = program, internal key = control[1..33), Merkle root = running hash");
        __CPROVER_assert(g_tweak_parity == ((control.s.a[0] & 1) != 0), "spec: the parity handed to the tweak check is bit 0 of the control byte");
        __CPROVER_assert((r == TaprootCommitmentEnv::State::Done) == g_tweak_ok && (r == TaprootCommitmentEnv::State::Failed) == !g_tweak_ok, "spec: the commitment check succeeds exactly when the tweak check holds");
        __CPROVER_assert(r != TaprootCommitmentEnv::State::Done, "canary: success reachable");
    }
    bool le = true; for (int i = 0; i < 32; ++i) if (leaf.m_data[i] != leaf0.m_data[i]) le = false;
    __CPROVER_assert(le && env.m_path_len == (int)m, "frame: the leaf hash and the path length never change while iterating");
}

// ---- C12: the listing of the commitment section has one line per step of the commitment check
extern "C" void h_tap_description(void) {
    verif_bytes control, program; CScript script; uint256 leaf;
    size_t m = nondet_size(); __CPROVER_assume(m <= H_TAP_MAXPATH);
    h_fill(control, 33 + 32 * m); h_fill(program, 32);
    __CPROVER_havoc_object(&script); __CPROVER_assume(script.n <= VERIF_SCRIPT_CAP);
    g_hcalls = 0;
    TaprootCommitmentEnv env(control, program, script, &leaf);
    g_hex_calls = 0;
    verif_strvec lines = env.Description();
    // the check takes m steps for the m path nodes plus one final step for the tweak check
    __CPROVER_assert(lines.size() == m + 1, "spec: the commitment listing has exactly one line per step of the commitment check (path length + 1)");
    // line i shows the node that step i hashes: bytes 33+32i .. 33+32i+31 of the control block
    bool nodes = (size_t)g_hex_calls == m;
    for (size_t i = 0; i < H_TAP_MAXPATH; ++i) if (i < m && i < VERIF_HEXLOG_CAP && !(g_hex_ptr[i] == env.m_control.data() + 33 + 32 * i && g_hex_len[i] == 32)) nodes = false;
    __CPROVER_assert(nodes, "spec: the i-th listed branch is the i-th path node of the control block (the 32 bytes at offset 33 + 32 i), the value the i-th step hashes");
    __CPROVER_assert(m != 1, "canary: one-node path reachable");
}
