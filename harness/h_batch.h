// h_batch.h -- contract of btcdeb's non-interactive driver (the `if (pipe_in || pipe_out)` block of main()), property C08:
// when input or output is not a terminal the script is RUN TO COMPLETION; exit status 0 is returned only for a session that
// finished successfully, after printing the final main stack in raw form; otherwise the error is reported on stderr, the
// stacks are shown and the status is 1.
#pragma once
extern "C" void h_batch_driver(void) {
    InterpreterEnv e; ScriptError err = nondet_int(); e.serror = &err; e.done = nondet_bool();
    env = &e; instance.env = &e; count = nondet_int();
    pipe_in = nondet_bool(); pipe_out = nondet_bool(); __CPROVER_assume(pipe_in || pipe_out);
    g_cont_calls = 0; g_step_calls = 0; g_print_stack_calls = 0; g_print_dual_calls = 0; g_stderr_reports = 0;
    g_run_result = nondet_bool(); g_done_after = nondet_bool();
    int rc = verif_batch_driver();
    __CPROVER_assert(rc == 0 || rc == 1, "spec: non-interactive mode always ends with exit status 0 or 1 (it never falls through to the command loop)");
    __CPROVER_assert(rc != 0 || e.done, "spec: exit status 0 only for a session that ran to completion (not merely as many steps as the listing has lines)");
    __CPROVER_assert(rc != 0 || (g_stderr_reports == 0 && g_print_stack_calls == 1 && g_printed_stack == &e.stack && g_printed_raw), "spec: on success the final main stack is printed once, in raw form, and no error is reported");
    __CPROVER_assert(rc != 1 || g_stderr_reports >= 1, "spec: a failed script is reported on stderr before exit status 1");
    __CPROVER_assert((rc == 1) == !g_run_result, "spec: the exit status is 1 exactly when the run failed");
    __CPROVER_assert(rc != 0, "canary: successful run reachable");
    __CPROVER_assert(rc != 1, "canary: failing run reachable");
}
