// h_svf_string.h -- contract of svf_string (the listing printed by --default-flags and by -v "resulting flags"), property C09:
// for every flag set made of the 21 known flags the listing names exactly the flags that are set, each once, in table order,
// separated by the separator; the empty set is listed as "(none)".  Precondition: no bit outside the 21 flags (the function
// loops for ever on such a set; both call sites pass STANDARD_SCRIPT_VERIFY_FLAGS or a set produced from it by svf_parse_flags,
// which only ever ors / clears table flags - svf_table, svf_loop_step).
#pragma once
int verif_expect_throw; int verif_thrown; int verif_expect_exit;
static const char* const SPEC_NAMES[21] = {
 "P2SH", "STRICTENC", "DERSIG", "LOW_S", "NULLDUMMY", "SIGPUSHONLY", "MINIMALDATA", "DISCOURAGE_UPGRADABLE_NOPS", "CLEANSTACK",
 "CHECKLOCKTIMEVERIFY", "CHECKSEQUENCEVERIFY", "WITNESS", "DISCOURAGE_UPGRADABLE_WITNESS_PROGRAM", "MINIMALIF", "NULLFAIL", "WITNESS_PUBKEYTYPE",
 "CONST_SCRIPTCODE", "TAPROOT", "DISCOURAGE_UPGRADABLE_TAPROOT_VERSION", "DISCOURAGE_OP_SUCCESS", "DISCOURAGE_UPGRADABLE_PUBKEYTYPE" };
static bool h_streq(const char* a, const char* b) { for (size_t i = 0; i < 64; ++i) { if (a[i] != b[i]) return false; if (a[i] == 0) return true; } return false; }
static const char H_SEP[] = ", ";
// (not registered: with a symbolic flag set the rope has a symbolic length and the query does not finish within 25 minutes)
extern "C" void h_svf_string(void) {
    unsigned int flags = nondet_uint();
    __CPROVER_assume((flags & ~0x1fffffU) == 0);
    std::verif_rope r = svf_string(flags, H_SEP);
    size_t at = 0; bool good = true;
    for (unsigned int k = 0; k < 21; ++k) {
        if ((flags >> k) & 1U) {
            if (at > 0) { if (!(at < r.n && r.piece[at] == H_SEP)) good = false; at = at + 1; }
            if (!(at < r.n && h_streq(r.piece[at], SPEC_NAMES[k]))) good = false;
            at = at + 1;
        }
    }
    if (flags == 0) __CPROVER_assert(r.n == 1 && h_streq(r.piece[0], "(none)"), "spec: the empty flag set is listed as (none)");
    else __CPROVER_assert(good && r.n == at, "spec: the listing names exactly the flags that are set, each once, in table order, separated by the separator");
    __CPROVER_assert(flags != 0x1fffffU, "canary: the full set is reachable");
    __CPROVER_assert(flags != 0, "canary: the empty set is reachable");
}
// the standard set handed to the listing by --default-flags satisfies the precondition and is the prescribed set
extern "C" void h_svf_string_standard(void) {
    __CPROVER_assert((STANDARD_SCRIPT_VERIFY_FLAGS & ~0x1fffffU) == 0 && STANDARD_SCRIPT_VERIFY_FLAGS == (0x1fffffU & ~(1U << 5)), "spec: --default-flags lists the standard set: every flag except SIGPUSHONLY");
    std::verif_rope r = svf_string(STANDARD_SCRIPT_VERIFY_FLAGS, H_SEP);
    size_t at = 0; bool good = true;
    for (unsigned int k = 0; k < 21; ++k) {
        if (k == 5) continue;                                   // SIGPUSHONLY is not standard
        if (at > 0) { if (!(at < r.n && r.piece[at] == H_SEP)) good = false; at = at + 1; }
        if (!(at < r.n && h_streq(r.piece[at], SPEC_NAMES[k]))) good = false;
        at = at + 1;
    }
    __CPROVER_assert(good && r.n == at && at == 39, "spec: the --default-flags listing names exactly the 20 standard flags, each once, in table order, separated by the separator");
    __CPROVER_assert(r.n != 39, "canary: the standard listing is produced");
}
