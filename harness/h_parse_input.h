// h_parse_input.h -- contract of Instance::parse_input_transaction (property C03, input selection fragment)
#pragma once
extern "C" void h_parse_input(void) {
    CTransaction spend, fund; __CPROVER_havoc_object(&spend); __CPROVER_havoc_object(&fund);
    __CPROVER_assume(spend.vin.n <= VERIF_MAX_VIN); __CPROVER_assume(fund.vout.n <= 100000);
    Instance inst; inst.tx = nondet_bool() ? &spend : (CTransaction*)0; inst.txin = 0; inst.txin_index = -1; inst.txin_vout_index = -1;
    bool parse_ok = nondet_bool(); g_parse_tx_result = parse_ok ? &fund : (CTransaction*)0;
    int sel = nondet_int(); __CPROVER_assume(sel >= -1 && sel <= 1000);
    bool r = inst.parse_input_transaction("", sel);
    if (!parse_ok) { __CPROVER_assert(!r, "spec: an unparsable funding transaction is refused"); return; }
    if (inst.tx == 0) { __CPROVER_assert(r && inst.txin == &fund && inst.txin_index == -1, "spec: without a spending transaction the funding transaction is only recorded"); return; }
    // first input that spends the funding transaction
    long first = -1; for (size_t i = 0; i < VERIF_MAX_VIN; ++i) if (i < spend.vin.n && first < 0 && spend.vin.a[i].prevout.hash == fund.id) first = (long)i;
    if (sel > -1) {
        bool valid = (size_t)sel < spend.vin.n && spend.vin.a[sel < VERIF_MAX_VIN ? sel : 0].prevout.hash == fund.id;
        const bool exists = valid && (size_t)spend.vin.a[sel < VERIF_MAX_VIN ? sel : 0].prevout.n < fund.vout.n;
        __CPROVER_assert(r == (valid && exists), "spec: an explicit selection is accepted exactly when it is in range, that input spends the funding transaction and the output it references exists there");
        if (r) __CPROVER_assert(inst.txin_index == sel && inst.txin_vout_index == (int64_t)spend.vin.a[sel < VERIF_MAX_VIN ? sel : 0].prevout.n, "spec: the selected input and the output IT references are used");
        __CPROVER_assert(!(r && sel == 1 && first == 0), "canary: selecting the second of two spending inputs reachable");
    } else {
        const bool exists = first >= 0 && (size_t)spend.vin.a[first < VERIF_MAX_VIN ? first : 0].prevout.n < fund.vout.n;
        __CPROVER_assert(r == (first >= 0 && exists), "spec: without a selection the session is refused exactly when no input spends the funding transaction or the referenced output does not exist");
        if (r) __CPROVER_assert(inst.txin_index == first && inst.txin_vout_index == (int64_t)spend.vin.a[first < VERIF_MAX_VIN ? first : 0].prevout.n, "spec: the first input that spends the funding transaction is used, with the output it references");
        __CPROVER_assert(!(r && first == 1), "canary: automatic selection of a later input reachable");
    }
    __CPROVER_assert(!r || (size_t)inst.txin_vout_index < fund.vout.n, "spec: on success the referenced output exists in the funding transaction (its amount and locking script are read next)");
}
