#!/bin/bash
# C03 finding (fixed by d887e9b): taproot key path spend with an annex.  exit 0 = the debugger sets up [sig] <key> OP_CHECKSIG and the
# listed (mock) signature is accepted; exit 1 = the annex is handed to the script as the signature.
T=${1:-/repo}; D=$(dirname "$0")
out=$($T/btcdeb --tx=$(cat $D/spend_annex.hex) --txin=$(cat $D/fund.hex) --pretend-valid=$(cat $D/pv.txt) 2>/dev/null </dev/null | tail -1)
echo "final stack line: $out"; [ "$out" = "01" ]
