#!/bin/bash
# C15 finding: funding output OP_HASH160 <5 bytes> OP_EQUAL, spent with a non-empty scriptSig and a witness.
# exit 0 = refused with a diagnostic (status 1); exit 1 = abort on the uint160 size assertion (status 134).
T=${1:-/repo}; D=$(dirname "$0")
$T/btcdeb --tx=$(cat $D/spend_h5.hex) --txin=$(cat $D/fund_h5.hex) </dev/null >/dev/null 2>&1; rc=$?
echo "exit status: $rc"; [ "$rc" = "1" ]
