#!/bin/bash
# C08 finding (fixed by 289ecf2): a script longer than 1023 characters on stdin.  exit 0 = executed whole (final stack 01).
T=${1:-/repo}; P=$(python3 -c "print('ab'*520)")
out=$(echo "[0x$P OP_DROP OP_1]" | $T/btcdeb 2>/dev/null | tail -1); echo "final stack line: $out"; [ "$out" = "01" ]
