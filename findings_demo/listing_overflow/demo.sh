#!/bin/bash
# C15 finding (fixed by ddba418): listing line of a 509..520 byte push.  Needs an AddressSanitizer build of btcdeb.cpp:
#   cd <tree>; g++ -std=c++17 -DHAVE_CONFIG_H -I. -I./config -g -O1 -fsanitize=address -c -o /tmp/b.o btcdeb.cpp
#   g++ -std=c++17 -g -fsanitize=address -o /tmp/btcdeb_asan btcdeb-instance.o btcdeb-functions.o /tmp/b.o libbitcoin_deb.a libbitcoin.a secp256k1/.libs/libsecp256k1.a libkerl.a -lreadline
# then run with a terminal on stdin and stdout redirected (script(1) provides the terminal):
#   script -qec "/tmp/btcdeb_asan '[0x<520 bytes> OP_DROP OP_1]' > out.txt 2> err.txt" /dev/null
# unfixed tree: err.txt has "AddressSanitizer: stack-buffer-overflow ... WRITE of size 1030 ... main btcdeb.cpp:336 ... 'buf' (line 321)"; fixed tree: out.txt ends with 01.
T=${1:-/repo}; cd $T || exit 2
g++ -std=c++17 -DHAVE_CONFIG_H -I. -I./config -g -O1 -fsanitize=address -c -o /tmp/b_$$.o btcdeb.cpp || exit 2
g++ -std=c++17 -g -fsanitize=address -o /tmp/btcdeb_asan_$$ btcdeb-instance.o btcdeb-functions.o /tmp/b_$$.o libbitcoin_deb.a libbitcoin.a secp256k1/.libs/libsecp256k1.a libkerl.a -lreadline || exit 2
P=$(python3 -c "print('ab'*520)"); echo "/tmp/btcdeb_asan_$$ '[0x$P OP_DROP OP_1]' > /tmp/o_$$.txt 2> /tmp/e_$$.txt" > /tmp/c_$$.sh
script -qec "bash /tmp/c_$$.sh" /dev/null </dev/null >/dev/null 2>&1
n=$(grep -c 'ERROR: AddressSanitizer' /tmp/e_$$.txt); echo "sanitizer reports: $n; last output line: $(tail -1 /tmp/o_$$.txt | cut -c1-10)"
rm -f /tmp/b_$$.o /tmp/btcdeb_asan_$$ /tmp/o_$$.txt /tmp/e_$$.txt /tmp/c_$$.sh
[ "$n" = "0" ]
