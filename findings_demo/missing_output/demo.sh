#!/bin/bash
# C15 / C03 finding: the spending input references output 5 of a funding transaction that has one output.
# exit 0 = refused with a diagnostic (exit status 1 of btcdeb, no invalid read under valgrind); exit 1 = the index is used unchecked.
T=${1:-/repo}; D=$(dirname "$0")
n=$(valgrind -q $T/btcdeb --tx=$(cat $D/spend_oob.hex) --txin=$(cat $D/fund.hex) </dev/null 2>&1 | grep -c "Invalid read")
$T/btcdeb --tx=$(cat $D/spend_oob.hex) --txin=$(cat $D/fund.hex) </dev/null >/dev/null 2>&1; rc=$?
echo "invalid reads: $n, exit status: $rc"; [ "$n" = "0" ] && [ "$rc" = "1" ]
