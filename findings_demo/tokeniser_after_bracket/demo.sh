#!/bin/bash
# C07 finding (fixed by 52c0e42): a comment directly after a closing bracket.  exit 0 = compiled as push(push(OP_1 OP_2) OP_3).
T=${1:-/repo}
out=$($T/btcc '[[OP_1 OP_2]# c
OP_3]' 2>/dev/null | tail -1)
echo "compiled: $out (expected 0402515253)"; [ "$out" = "0402515253" ]
