#!/bin/sh
# offline setup: nothing to fetch or build ahead of time; verify the tools the checks need are present
set -e
cd "$(dirname "$0")"
for t in cbmc goto-cc goto-instrument g++ python3; do command -v $t >/dev/null || { echo "missing tool $t"; exit 1; }; done
mkdir -p build evidence
python3 -c "import json; json.load(open('MANIFEST.json')); print('manifest ok')"
