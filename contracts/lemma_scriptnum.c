/* Lemmas over the spec functions only (no code from /repo): uniqueness of minimal encodings and
 * value/len consistency. Valid for the code because contracts/scriptnum.c establishes code == spec. */
#include "spec_scriptnum.h"
void h_lemma_unique(void) {
    unsigned char a[8], b[8]; size_t la, lb;
    __CPROVER_assume(la <= 8 && lb <= 8);
    __CPROVER_assume(spec_num_minimal(a, la) && spec_num_minimal(b, lb));
    __CPROVER_assume(spec_num_value(a, la) == spec_num_value(b, lb));
    __CPROVER_assert(la == lb, "lemma: minimal encodings of equal values have equal length");
    for (size_t i = 0; i < 8; ++i) if (i < la) __CPROVER_assert(a[i] == b[i], "lemma: minimal encodings of equal values are byte-identical (encoding is unique)");
    __CPROVER_assert(la == spec_num_len(spec_num_value(a, la)), "lemma: a minimal string has the minimal length of its value");
}
void h_lemma_range(void) {
    unsigned char a[8]; size_t la;
    __CPROVER_assume(la <= 4);
    int64_t v = spec_num_value(a, la);
    __CPROVER_assert(v >= -2147483647L && v <= 2147483647L, "lemma: every string of at most 4 bytes denotes a value in [-2^31+1, 2^31-1]");
    __CPROVER_assume(la == 4 && a[3] == 0xff && a[2] == 0xff && a[1] == 0xff && a[0] == 0xff);
    __CPROVER_assert(v == -2147483647L, "lemma: ffffffff denotes -(2^31-1)");
}
