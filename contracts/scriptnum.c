/* Contracts for CScriptNum (script/script.h), enforced with goto-instrument --dfcc on extern "C" wrappers
 * whose bodies only flatten std::vector<unsigned char> to (pointer,length). Properties C18, C01(L0), C07. */
#include "spec_scriptnum.h"
extern int verif_expect_throw;

/* ---- CScriptNum::serialize : for every int64 the result is THE minimal sign-magnitude encoding of v */
size_t w_scriptnum_serialize(int64_t v, unsigned char* out)
__CPROVER_requires(__CPROVER_is_fresh(out, 9))
__CPROVER_assigns(__CPROVER_object_whole(out))
__CPROVER_ensures(__CPROVER_return_value <= 9)
__CPROVER_ensures(spec_num_minimal(out, __CPROVER_return_value))
__CPROVER_ensures(v == INT64_MIN || __CPROVER_return_value == spec_num_len(v))
__CPROVER_ensures(v == INT64_MIN || spec_num_value(out, __CPROVER_return_value) == v)
__CPROVER_ensures(v != INT64_MIN || (__CPROVER_return_value == 9 && out[8] == 0x80 && out[7] == 0x80 && out[0] == 0 && out[6] == 0))
#ifdef VERIF_CANARY_SERIALIZE
__CPROVER_ensures(__CPROVER_return_value != 3)
#endif
;
/* ---- CScriptNum(vch, fRequireMinimal, nMaxNumSize).GetInt64() */
int64_t w_scriptnum_decode(const unsigned char* in, size_t len, int require_minimal, size_t maxlen)
__CPROVER_requires(len <= 8 && maxlen <= 8 && __CPROVER_is_fresh(in, 8))
__CPROVER_requires(verif_expect_throw == spec_num_decode_kind(in, len, require_minimal, maxlen))
__CPROVER_assigns()
__CPROVER_ensures(spec_num_decode_kind(in, len, require_minimal, maxlen) == SPEC_VT_NONE)
__CPROVER_ensures(__CPROVER_return_value == spec_num_value(in, len))
;
/* ---- CScriptNum::getint() saturates */
int w_scriptnum_getint(int64_t v)
__CPROVER_assigns()
__CPROVER_ensures(__CPROVER_return_value == (v > 2147483647L ? 2147483647 : (v < -2147483647L - 1 ? -2147483647 - 1 : (int)v)))
;
/* ---- round trip through the real code: decode(serialize(x)) == x whenever the encoding fits the operand size */
int64_t w_scriptnum_roundtrip(int64_t v, int require_minimal)
__CPROVER_requires(v != INT64_MIN)
__CPROVER_requires(verif_expect_throw == SPEC_VT_NONE)
__CPROVER_assigns()
__CPROVER_ensures(__CPROVER_return_value == v)
;

void h_serialize(void) {
    int64_t v; unsigned char out[9];
    size_t n = w_scriptnum_serialize(v, out);
    __CPROVER_assert(n != 0, "canary: zero encodes to the empty string (reachable)");
    __CPROVER_assert(n != 9, "canary: INT64_MIN needs 9 bytes (reachable)");
    __CPROVER_assert(!(n == 2 && out[1] == 0x80), "canary: -128..-255 use a separate sign byte (reachable)");
}
void h_decode(void) {
    unsigned char in[8]; size_t len; int require_minimal; size_t maxlen;
    if (len <= 8 && maxlen <= 8) {
        int k = spec_num_decode_kind(in, len, require_minimal, maxlen);
        __CPROVER_assert(k != SPEC_VT_SCRIPTNUM_OVERFLOW, "canary: overflow case admitted by the precondition");
        __CPROVER_assert(k != SPEC_VT_SCRIPTNUM_NONMINIMAL, "canary: non-minimal case admitted by the precondition");
    }
    int64_t r = w_scriptnum_decode(in, len, require_minimal, maxlen);
    __CPROVER_assert(r >= 0, "canary: negative results reachable");
    __CPROVER_assert(len != 8, "canary: 8-byte operands reachable");
}
void h_getint(void) { int64_t v; int r = w_scriptnum_getint(v); __CPROVER_assert(r != 2147483647, "canary: saturation reachable"); }
void h_roundtrip(void) { int64_t v; int rm; int64_t r = w_scriptnum_roundtrip(v, rm); __CPROVER_assert(r > -1000, "canary: normal return reachable"); }
