/* spec_scriptnum.h -- mathematical definition of Bitcoin script numbers (little-endian sign-magnitude).
 * Written from the definition (Bitcoin wiki "Script"/BIP62 rule 4), not from the code. Plain C, shared by the
 * CBMC contracts, the lemma files and the native replay drivers. */
#ifndef SPEC_SCRIPTNUM_H
#define SPEC_SCRIPTNUM_H
#include <stdint.h>
#include <stddef.h>
enum { SPEC_VT_NONE = 0, SPEC_VT_SCRIPTNUM_OVERFLOW = 1, SPEC_VT_SCRIPTNUM_NONMINIMAL = 2 };

/* value denoted by the byte string v[0..len): sum of v[i]*256^i with the top bit of the last byte as sign. len <= 8 */
static inline int64_t spec_num_value(const unsigned char* v, size_t len) {
    if (len == 0) return 0;
    uint64_t mag = 0;
    for (size_t i = 0; i < 8; ++i)
        if (i < len) { uint64_t b = v[i]; if (i == len - 1) b &= 0x7f; mag |= b << (8 * i); }
    return (v[len - 1] & 0x80) ? (int64_t)(0 - mag) : (int64_t)mag;
}
/* minimal: no byte could be dropped without changing the value (BIP62 rule 4); 0 is the empty string */
static inline int spec_num_minimal(const unsigned char* v, size_t len) {
    if (len == 0) return 1;
    if ((v[len - 1] & 0x7f) != 0) return 1;
    return len > 1 && (v[len - 2] & 0x80) != 0;
}
/* which failure decoding must raise */
static inline int spec_num_decode_kind(const unsigned char* v, size_t len, int require_minimal, size_t maxlen) {
    if (len > maxlen) return SPEC_VT_SCRIPTNUM_OVERFLOW;
    if (require_minimal && !spec_num_minimal(v, len)) return SPEC_VT_SCRIPTNUM_NONMINIMAL;
    return SPEC_VT_NONE;
}
/* length of the unique minimal encoding of x (x != INT64_MIN): smallest L with |x| < 2^(8L-1) */
static inline size_t spec_num_len(int64_t x) {
    uint64_t a = x < 0 ? (uint64_t)0 - (uint64_t)x : (uint64_t)x;
    size_t L = 0;
    for (size_t i = 0; i < 9; ++i) {
        /* 2^(8L-1) for L=0 is "1/2": only a=0 fits */
        int fits = (L == 0) ? (a == 0) : (L >= 9 ? 1 : (a >> (8 * L - 1)) == 0);
        if (fits) break;
        L = L + 1;
    }
    return L;
}
#endif
